#!/usr/bin/env python3
"""Regenerates /verif/MANIFEST.json from the check modules present in /verif/checks (metadata table below)."""
import json, os, re, sys
V = os.path.dirname(os.path.dirname(os.path.abspath(__file__)))
props = [json.loads(l) for l in open(os.path.join(V, 'properties.jsonl'))]
META = json.load(open(os.path.join(V, 'tools', 'manifest_meta.json')))
checks, na = [], []
for p in props:
    pid = p['id']
    m = META.get(pid)
    if m and os.path.exists(os.path.join(V, 'checks', pid.lower() + '.py')):
        checks.append({
            'property_id': pid,
            'quick_cmd': './check %s --tier quick' % pid,
            'thorough_cmd': './check %s --tier thorough' % pid,
            'evidence_file': 'evidence/%s.json' % pid,
            'replay_cmd_template': './check %s --replay {path}' % pid,
            'engine': m['engine'],
            'level_claimed': {'category': m['level'], 'text': m['text'], 'design_ref': 'DESIGN.md §3 ' + pid},
            'level_note': m['note'],
            'technique': m['technique'],
        })
    else:
        na.append({'property_id': pid, 'reason': 'check not built yet in this revision (planned: DESIGN.md §3 %s); nothing is claimed' % pid})
man = {
    'version': 1,
    'setup_cmd': 'true',
    'hooks': {'guard': 'GIN_VERIF', 'enable': 'none needed: no instrumentation was added to /repo; checks import gin from /repo in a fresh interpreter (scheduling points come from sys.settrace, lock substitution from module attributes)',
              'baseline_off_cmd': 'cd /repo && /venv/bin/python -m pytest -ra -q -p no:cacheprovider --timeout=900 --continue-on-collection-errors',
              'source_commits': [], 'add_only': True},
    'engines': [
        {'name': 'bfs', 'path': 'vf/', 'serves_properties': [c['property_id'] for c in checks if 'E1' in c['engine']], 'kind_free_text': 'explicit-state BFS over API operation histories on the real gin module, lock-step reference model, dedup on canonical internal state'},
        {'name': 'sched', 'path': 'vf/sched.py', 'serves_properties': [c['property_id'] for c in checks if 'E2' in c['engine']], 'kind_free_text': 'stateless preemption-bounded schedule exploration of real threads (sys.settrace line events, semaphore baton, model lock)'},
        {'name': 'enum', 'path': 'vf/', 'serves_properties': [c['property_id'] for c in checks if 'E3' in c['engine']], 'kind_free_text': 'bounded-exhaustive generative enumeration of inputs / layouts / fault positions against an independent oracle'},
    ],
    'checks': checks,
    'notes': 'All checks decide by exhaustive enumeration within the bound recorded in evidence/<id>.json (coverage.bound). KNOWN_FINDINGS.txt lists open findings (by signature) and fixed ones.',
    'not_applicable': na,
}
json.dump(man, open(os.path.join(V, 'MANIFEST.json'), 'w'), indent=1)
print('MANIFEST.json: %d checks, %d not claimed' % (len(checks), len(na)))
