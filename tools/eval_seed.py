#!/usr/bin/env python3
"""tools/eval_seed.py <seed_dir> <PROP_ID> [--checks C01,C07] [--tier quick] [--keep-as NAME]

Confirms a candidate property-breaking change (patch.diff + demo.py in <seed_dir>):
  1. fresh scratch worktree of /repo HEAD under /tmp: demo must exit 0; apply patch; pinned test-suite must still
     pass (all stable tests); demo must exit non-zero.  The worktree is removed afterwards.
  2. apply the patch to /repo, run the listed checks (default: the property's own), ALWAYS revert.
  3. with --keep-as, copies patch/demo/notes + meta.json to /verif/seeded/<NAME>/.
"""
import argparse, json, os, shutil, subprocess, sys, time
V = os.path.dirname(os.path.dirname(os.path.abspath(__file__)))
ap = argparse.ArgumentParser()
ap.add_argument('seed_dir'); ap.add_argument('prop')
ap.add_argument('--checks'); ap.add_argument('--tier', default='quick'); ap.add_argument('--keep-as')
ap.add_argument('--skip-confirm', action='store_true')
a = ap.parse_args()
patch = os.path.join(a.seed_dir, 'patch.diff'); demo = os.path.join(a.seed_dir, 'demo.py')
def sh(cmd, **kw):
    return subprocess.run(cmd, shell=True, capture_output=True, text=True, **kw)
meta = {'property': a.prop, 'source': a.seed_dir, 'at': time.strftime('%Y-%m-%d %H:%M:%S')}
if not a.skip_confirm:
    wt = '/tmp/wt_eval_%s_%d' % (a.prop, os.getpid())
    r = sh('git -C /repo worktree add --detach %s HEAD' % wt)
    assert r.returncode == 0, r.stderr
    try:
        env = dict(os.environ, PYTHONPATH=wt, PYTHONDONTWRITEBYTECODE='1')
        r0 = subprocess.run(['/venv/bin/python', '-B', demo], cwd=wt, env=env, capture_output=True, text=True, timeout=600)
        meta['demo_without_patch_rc'] = r0.returncode
        r = sh('git -C %s apply %s' % (wt, patch))
        if r.returncode != 0:
            print('PATCH DOES NOT APPLY to /repo HEAD:', r.stderr[:400]); sys.exit(2)
        rb = subprocess.run([os.path.join(V, 'tools', 'baseline.py'), wt], capture_output=True, text=True, env=env)
        meta['baseline'] = rb.stdout.strip().splitlines()
        r1 = subprocess.run(['/venv/bin/python', '-B', demo], cwd=wt, env=env, capture_output=True, text=True, timeout=600)
        meta['demo_with_patch_rc'] = r1.returncode
        meta['demo_with_patch_tail'] = (r1.stdout + r1.stderr)[-400:]
    finally:
        sh('git -C /repo worktree remove --force %s' % wt)
    print('demo without patch rc=%s; with patch rc=%s; %s' % (meta['demo_without_patch_rc'], meta['demo_with_patch_rc'], meta['baseline'][0]))
    ok = meta['demo_without_patch_rc'] == 0 and meta['demo_with_patch_rc'] != 0 and rb.returncode == 0
    meta['confirmed'] = ok
    if not ok:
        print('NOT CONFIRMED:', json.dumps(meta, indent=1)[:1500]); sys.exit(3)
checks = (a.checks.split(',') if a.checks else [a.prop])
assert sh('git -C /repo diff --quiet').returncode == 0, '/repo dirty'
r = sh('git -C /repo apply %s' % patch); assert r.returncode == 0, r.stderr
results = {}
try:
    for c in checks:
        t = time.time()
        p = subprocess.run([os.path.join(V, 'check'), c, '--tier', a.tier, '--no-confirm'], capture_output=True, text=True, timeout=7200)
        sigs = [l.strip() for l in p.stdout.splitlines() if l.strip().startswith('sig=')]
        det = any(l.startswith('VIOLATION property=%s' % c) for l in p.stdout.splitlines())
        results[c] = {'detected': det, 'rc': p.returncode, 'sigs': sigs[:6], 'wall_s': round(time.time() - t, 1),
                      'tail': p.stdout.strip().splitlines()[-1][:300] if p.stdout.strip() else p.stderr[-300:]}
        print('%s %s tier=%s: %s %s' % ('DETECTED' if det else 'MISSED  ', c, a.tier, ' '.join(sigs[:4]), '' if det else results[c]['tail']))
finally:
    sh('git -C /repo checkout -- .')
meta['checks'] = results; meta['tier'] = a.tier
if a.keep_as:
    d = os.path.join(V, 'seeded', a.keep_as); os.makedirs(d, exist_ok=True)
    for f in ('patch.diff', 'demo.py', 'notes.md'):
        src = os.path.join(a.seed_dir, f)
        if os.path.exists(src) and os.path.realpath(src) != os.path.realpath(os.path.join(d, f)): shutil.copy(src, d)
    old = {}
    mp = os.path.join(d, 'meta.json')
    if os.path.exists(mp): old = json.load(open(mp))
    old.update(meta); json.dump(old, open(mp, 'w'), indent=1)
    print('kept as', d)
