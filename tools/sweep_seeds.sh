#!/bin/bash
# Re-evaluates every kept seeded change against its property's check (quick tier unless $1 given).
# Usage: tools/sweep_seeds.sh [tier] > scratch/sweep.log
cd "$(dirname "$0")/.."
tier=${1:-quick}
for d in seeded/*/; do
  n=$(basename $d); id=${n%%_*}
  out=$(timeout 1800 tools/eval_seed.py /verif/seeded/$n $id --skip-confirm --keep-as $n --tier $tier 2>&1 | grep -E "^(DETECTED|MISSED|NOT)" | head -1 | cut -c1-200)
  echo "$n ${out:-ERROR}"
  git -C /repo checkout -- . 2>/dev/null
done
