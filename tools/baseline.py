#!/usr/bin/env python3
"""Runs the pinned test command of /root/.vp/BASELINE.json in REPO (default /repo) and reports whether all
stable_pass tests still pass.  Usage: tools/baseline.py [repo_dir]"""
import json, os, subprocess, sys, tempfile
import xml.etree.ElementTree as ET
repo = sys.argv[1] if len(sys.argv) > 1 else '/repo'
base = json.load(open('/root/.vp/BASELINE.json'))
fd, xml = tempfile.mkstemp(suffix='.xml'); os.close(fd)
env = dict(os.environ, PYTHONDONTWRITEBYTECODE='1')
env.pop('GIN_VERIF', None)
if repo != '/repo':
    env['PYTHONPATH'] = repo
cmd = base['cmd'].replace('cd /repo', 'cd ' + repo).replace('<file>', xml)
p = subprocess.run(cmd, shell=True, capture_output=True, text=True, env=env)
passed = set()
for tc in ET.parse(xml).getroot().iter('testcase'):
    if not list(tc):
        passed.add('%s::%s' % (tc.get('classname'), tc.get('name')))
os.unlink(xml)
missing = [t for t in base['stable_pass'] if t not in passed]
print('baseline: %d/%d stable tests pass' % (len(base['stable_pass']) - len(missing), len(base['stable_pass'])))
for t in missing: print('  NOT PASSING:', t)
sys.exit(1 if missing else 0)
