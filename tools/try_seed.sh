#!/bin/bash
# tools/try_seed.sh <seed name> <ID> [tier]  — applies a kept seed to the scratch worktree /tmp/wt/w5 (not /repo), runs the
# check against it, and reverts.  Lets seed evaluation run while /repo is in use.
n=$1; id=$2; tier=${3:-quick}
cd /verif
git -C /tmp/wt/w5 checkout -q -- . && git -C /tmp/wt/w5 apply /verif/seeded/$n/patch.diff || { echo "APPLY FAILED $n"; exit 2; }
VERIF_REPO=/tmp/wt/w5 timeout 1800 ./check $id --tier $tier --no-confirm 2>&1 | grep -E "sig=|^C[0-9][0-9] (OK|FAIL|ERROR)|VACUOUS" | head -6 | cut -c1-220
git -C /tmp/wt/w5 checkout -q -- .
