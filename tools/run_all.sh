#!/bin/bash
# tools/run_all.sh [quick|thorough]  — runs every registered check once, prints one line per check.
cd "$(dirname "$0")/.."
tier=${1:-quick}
rc=0
for id in $(python3 -c "import json;print(' '.join(c['property_id'] for c in json.load(open('MANIFEST.json'))['checks']))"); do
  s=$(date +%s.%N)
  out=$(timeout ${TIMEOUT:-3600} ./check $id --tier $tier 2>&1); r=$?
  e=$(date +%s.%N)
  printf "%s rc=%d %.1fs %s\n" $id $r $(echo "$e - $s" | bc) "$(echo "$out" | grep -c '^KNOWN-FINDING') known; $(echo "$out" | grep '^VIOLATION\|^VACUOUS\|^HARNESS' | head -2 | tr '\n' ' ' | cut -c1-160)"
  [ $r -ne 0 ] && rc=1
done
exit $rc
