#!/bin/bash
# Validates MANIFEST.json and every evidence file against the schemas (uses the tooling venv's jsonschema).
cd "$(dirname "$0")/.." && python3-vt - <<'PY'
import json, jsonschema, glob, sys
ok = True
jsonschema.validate(json.load(open('MANIFEST.json')), json.load(open('/root/.vp/MANIFEST.schema.json')))
es = json.load(open('/root/.vp/EVIDENCE.schema.json'))
man = json.load(open('MANIFEST.json'))
for c in man['checks']:
    try:
        jsonschema.validate(json.load(open(c['evidence_file'])), es)
    except Exception as e:
        ok = False; print('INVALID', c['evidence_file'], str(e)[:300])
print('manifest+evidence valid' if ok else 'PROBLEMS'); sys.exit(0 if ok else 1)
PY
