#!/bin/bash
# tools/mutant.sh <patch.diff> <ID> [ID...]   — apply a patch to /repo's working tree, run the quick checks
# (and with BASELINE=1 the pinned test-suite), then ALWAYS revert.  Exit 0 iff every listed check reported VIOLATION.
patch=$(realpath "$1"); shift
cd /repo || exit 2
if ! git diff --quiet; then echo "/repo working tree is dirty, refusing"; exit 2; fi
git apply "$patch" || { echo "patch does not apply"; exit 2; }
trap "git -C /repo checkout -- ." EXIT INT TERM
rc=0
if [ -n "$BASELINE" ]; then /verif/tools/baseline.py /repo || echo "NOTE: baseline tests FAIL with this patch"; fi
for id in "$@"; do
  out=$(cd /verif && ./check "$id" --tier "${TIER:-quick}" --no-confirm 2>&1)
  if echo "$out" | grep -q "^VIOLATION property=$id"; then
    echo "DETECTED $id: $(echo "$out" | grep -A1 '^VIOLATION' | grep sig= | head -3 | tr '\n' ' ')"
  else
    echo "MISSED $id: $(echo "$out" | tail -1 | cut -c1-200)"; rc=1
  fi
done
exit $rc
