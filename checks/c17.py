"""C17 — exceptions from configurables keep their type, data and traceback.

E3: every exception class exported by builtins (constructed with class-appropriate arguments) plus user classes
(extra attributes, required __init__/__new__ arguments, __slots__, custom __str__, property, multiple
inheritance) x raise site (body, evaluated reference, scoped reference) x nesting depth 1-3.
"""
import builtins
import errno
import itertools
import sys

from vf import core
from vf import harness
from vf.harness import gin, cfg

ID = 'C17'
LEVEL = 'exploration'
RULE = ('every builtin exception class (incl. exception groups, OSError family via errno, Unicode*Error, SyntaxError '
        'family, StopIteration) + user classes x raise site {body, evaluated reference, scoped reference} x nesting '
        'depth {1,2,3}; per case: isinstance / except-clause, traceback ends in the raising frame, every public '
        'attribute readable on the original reads the same, str = original + suffix naming configurable and scope; '
        'non-Exception classes arrive as the identical object. non-trivial = class has data beyond the message.')
ASSUMPTIONS = ['public attributes = dir() minus dunder names, plus args', 'CPython 3.12 builtin exception set']
WITNESSES = ['consumed_by_interpreter', 'same_class_caught', 'traceback_kept', 'user_attribute_kept', 'message_extended', 'baseexception_untouched',
             'nested_depth3', 'scope_named', 'reference_site', 'sequence_of_raises', 'midway_annotation_kept']

CURRENT = [None]


def setup():
  @gin.configurable(module='c17')
  def raiser():
    raise CURRENT[0]

  @gin.configurable(module='c17')
  def mid():
    return raiser()

  @gin.configurable(module='c17')
  def outer():
    return mid()

  @gin.configurable(module='c17')
  def consumer(p=None):
    return p

  class OddRepr:
    """A callable configurable whose repr is full of format metacharacters."""
    def __call__(self):
      raise CURRENT[0]

    def __repr__(self):
      return "<OddRepr {'limit': 7} {0} {} %s %(x)d {name!r} \\n {{>"
  global ODD, ODD_PARTIAL
  ODD = gin.external_configurable(OddRepr(), name='odd_repr', module='c17')
  import functools  # pylint: disable=import-outside-toplevel

  def _raise_with(opts, fmt='{}'):
    raise CURRENT[0]
  ODD_PARTIAL = gin.external_configurable(functools.partial(_raise_with, {'limit': 7, 'fmt': '%s {0}'}),
                                          name='odd_partial', module='c17')

  @gin.configurable(module='c17')
  def annotating_mid():
    """Catches what the inner configurable raised, annotates THAT exception object and re-raises it."""
    try:
      return raiser()
    except Exception as e:  # pylint: disable=broad-except
      e.retryable = ('annotated', id(CURRENT[0]) % 7)
      e.args = tuple(e.args) + ('seen by annotating_mid',)
      raise

  @gin.configurable(module='c17')
  def outer_of_annotating():
    return annotating_mid()
  global RAISER, MID, OUTER, CONSUMER, ANN_MID, ANN_OUTER
  RAISER, MID, OUTER, CONSUMER, ANN_MID, ANN_OUTER = raiser, mid, outer, consumer, annotating_mid, outer_of_annotating


# ----------------------------------------------------------------------------------- exception factories
class UExtra(Exception):
  def __init__(self, msg):
    super().__init__(msg)
    self.payload = {'k': [1, 2]}
    self.code = 17


class UInitArgs(Exception):
  def __init__(self, a, b):
    super().__init__('%s-%s' % (a, b))
    self.a, self.b = a, b


class UNewArgs(Exception):
  def __new__(cls, a, b):
    o = super().__new__(cls, a, b)
    o.a, o.b = a, b
    return o

  def __init__(self, a, b):
    super().__init__(a, b)


class USlots(Exception):
  __slots__ = ('detail',)

  def __init__(self, msg, detail):
    super().__init__(msg)
    self.detail = detail


class UStr(Exception):
  def __str__(self):
    return 'custom<%s>' % (self.args,)


class UProp(Exception):
  def __init__(self, n):
    super().__init__(n)
    self._n = n

  @property
  def doubled(self):
    return self._n * 2


class Mixin:
  mixed = 'mixin-value'

  def helper(self):
    return 'helped'


class UMulti(KeyError, Mixin):
  pass


class UOs(OSError):
  def __init__(self, *a):
    super().__init__(*a)
    self.extra = 'x'


class UBase(Exception):
  def __init__(self, msg, level=0):
    super().__init__(msg)
    self.level = level


class USub(UBase):
  pass


class USubSub(USub):
  sub_marker = 'subsub'


class UClassDefault(Exception):
  """Class-level defaults that instances override (a common idiom: `code = 0` on the class, set per instance)."""
  code = 0
  retries = ()
  hint = None

  def __init__(self, msg, code):
    super().__init__(msg)
    self.code = code
    self.retries = [1, 2]


class UNewMismatch(Exception):
  """__new__ requires arguments that `args` does not mirror (the message is composed in __init__)."""
  def __new__(cls, code, detail):
    return super().__new__(cls, code, detail)

  def __init__(self, code, detail):
    super().__init__('code %s' % code)
    self.code, self.detail = code, detail


class _Field:
  """A hand-written data descriptor keeping per-instance values outside the instance dict."""
  def __init__(self, default):
    import weakref
    self.default, self.data = default, weakref.WeakKeyDictionary()

  def __get__(self, obj, owner):
    return self if obj is None else self.data.get(obj, self.default)

  def __set__(self, obj, value):
    self.data[obj] = value


class UDescr(Exception):
  limit = _Field(0)
  tenant = _Field(None)

  def __init__(self, msg, limit, tenant):
    super().__init__(msg)
    self.limit, self.tenant = limit, tenant


class USlotsNew(Exception):
  """Slots assigned in __new__ (from its arguments); one of them is changed again after construction."""
  __slots__ = ('code', 'used')

  def __new__(cls, code=0, used=0):
    self = super().__new__(cls, code, used)
    self.code, self.used = code * 2, used
    return self


def _slots_new_changed():
  e = USlotsNew(5, 120)
  e.code = 7
  return e


class UFinal(Exception):
  """A class that refuses to be subclassed."""
  def __init_subclass__(cls, **kw):
    raise TypeError('UFinal cannot be subclassed')


class UFinalRuntime(Exception):
  """Refuses to be subclassed, with an error class of its own choosing."""
  def __init_subclass__(cls, **kw):
    raise RuntimeError('UFinalRuntime is final')


class UReadOnlyArgs(Exception):
  args = property(lambda self: ('fixed', 1))


class UValidatingNew(Exception):
  def __new__(cls, code, detail=None):
    if not isinstance(code, int):
      raise ValueError('code must be int')
    return super().__new__(cls, code, detail)

  def __init__(self, code, detail=None):
    super().__init__('%d: %s' % (code, detail))
    self.code = code


class UShape(TypeError):
  """A TypeError subclass whose args are numbers."""
  def __init__(self, rows, cols):
    super().__init__(rows, cols)
    self.rows, self.cols = rows, cols


class UHolder(Exception):
  """Attributes holding objects that have identity, not value: a response object, a lock, a wrapped exception."""
  def __init__(self, msg):
    super().__init__(msg)
    import threading
    self.response = object()
    self.lock = threading.Lock()
    try:
      raise KeyError('inner')
    except KeyError as e:
      self.inner = e


class UHolderCopyable(Exception):
  """Like UHolder, but every attribute could be deep-copied (the copies would not be the same objects)."""
  def __init__(self, msg):
    super().__init__(msg)
    self.response = object()
    self.payload = [object(), {'k': object()}]


class ULocked(Exception):
  """Refuses every attribute assignment (so neither a proxy nor a note can be attached): it must at least arrive."""
  def __setattr__(self, k, v):
    raise AttributeError('read-only')


MESSAGE_OPTIONAL = {'ULocked'}


class UDownload(ConnectionError):
  """An OSError-family class that keeps three items in args."""
  def __init__(self, url, status, reason):
    super().__init__(url, status, reason)
    self.args = (url, status, reason)
    self.url = url


class UKwOnly(Exception):
  def __init__(self, *, code):
    super().__init__('code=%s' % code)
    self.code = code


def _regroup():
  eg = ExceptionGroup('m', [ValueError(1)])
  eg.args = ('m',)
  return eg


USER = {
    'UExtra': lambda: UExtra('boom'), 'UInitArgs': lambda: UInitArgs(1, 'two'), 'UNewArgs': lambda: UNewArgs(1, 2),
    'USlots': lambda: USlots('m', ['d']), 'UStr': lambda: UStr('s', 1), 'UProp': lambda: UProp(21),
    'UBase': lambda: UBase('base', 1), 'USub': lambda: USub('sub', 2), 'USubSub': lambda: USubSub('subsub', 3),
    'UMulti': lambda: UMulti('key'), 'UOs': lambda: UOs(errno.EACCES, 'denied', '/x'), 'UKwOnly': lambda: UKwOnly(code=5),
    'UClassDefault': lambda: UClassDefault('cd', 5), 'UNewMismatch': lambda: UNewMismatch(3, 'd'),
    'UDescr': lambda: UDescr('quota', 100, 'acme'),
    'USlotsNew': lambda: USlotsNew(100, 120), 'USlotsNewChangedLater': _slots_new_changed,
    'UFinal': lambda: UFinal('x'), 'UFinalRuntime': lambda: UFinalRuntime('x'), 'UReadOnlyArgs': lambda: UReadOnlyArgs('y'), 'UValidatingNew': lambda: UValidatingNew(404, 'nf'),
    'GroupArgsReassigned': lambda: _regroup(),
    'UDownload': lambda: UDownload('http://host/file', 503, 'busy'), 'BlockingIO3': lambda: BlockingIOError(11, 'would block', 7),
    'OSError5': lambda: OSError(13, 'denied', '/a', None, '/b'),
    'ULocked': lambda: ULocked('x', 2), 'UShape': lambda: UShape(3, 4), 'TypeErrorNonStringArg': lambda: TypeError(42), 'TypeErrorNoArgs': lambda: TypeError(),
    'TypeErrorBytesArg': lambda: TypeError(b'argument'), 'UHolder': lambda: UHolder('held'), 'UHolderCopyable': lambda: UHolderCopyable('held'),
}


def builtin_factories():
  out = {}
  for name in sorted(dir(builtins)):
    cls = getattr(builtins, name)
    if not (isinstance(cls, type) and issubclass(cls, BaseException)):
      continue
    if name in ('EnvironmentError', 'IOError', 'WindowsError'):
      continue  # aliases of OSError
    if issubclass(cls, OSError):
      code = {'FileNotFoundError': errno.ENOENT, 'PermissionError': errno.EACCES, 'FileExistsError': errno.EEXIST,
              'IsADirectoryError': errno.EISDIR, 'NotADirectoryError': errno.ENOTDIR, 'TimeoutError': errno.ETIMEDOUT,
              'InterruptedError': errno.EINTR, 'BlockingIOError': errno.EAGAIN, 'ChildProcessError': errno.ECHILD,
              'BrokenPipeError': errno.EPIPE, 'ConnectionAbortedError': errno.ECONNABORTED,
              'ConnectionRefusedError': errno.ECONNREFUSED, 'ConnectionResetError': errno.ECONNRESET,
              'ProcessLookupError': errno.ESRCH}.get(name, errno.EIO)
      out[name] = (lambda c=cls, k=code: c(k, 'os failure', '/some/file'))
    elif name == 'UnicodeDecodeError':
      out[name] = lambda: UnicodeDecodeError('utf-8', b'\xff\xfe', 0, 1, 'invalid start byte')
    elif name == 'UnicodeEncodeError':
      out[name] = lambda: UnicodeEncodeError('ascii', 'h\xe9', 1, 2, 'ordinal not in range')
    elif name == 'UnicodeTranslateError':
      out[name] = lambda: UnicodeTranslateError('h\xe9', 1, 2, 'cannot translate')
    elif issubclass(cls, SyntaxError):
      out[name] = (lambda c=cls: c('bad syntax', ('file.py', 3, 5, 'x = = 1\n', 3, 7)))
    elif name in ('StopIteration', 'StopAsyncIteration'):
      out[name] = (lambda c=cls: c('the value'))
    elif name == 'ExceptionGroup':
      out[name] = lambda: ExceptionGroup('grp', [ValueError(1), KeyError('k')])
    elif name == 'BaseExceptionGroup':
      out[name] = lambda: BaseExceptionGroup('bgrp', [KeyboardInterrupt()])
    elif name in ('ImportError', 'ModuleNotFoundError'):
      out[name] = (lambda c=cls: c('cannot import', name='modname', path='/p/mod.py'))
    elif name == 'AttributeError':
      out[name] = lambda: AttributeError('no attr', name='attrname', obj=CURRENT)
    elif name == 'NameError' or name == 'UnboundLocalError':
      out[name] = (lambda c=cls: c('no name', name='varname'))
    elif name == 'SystemExit':
      out[name] = lambda: SystemExit(3)
    elif name == 'KeyError':
      out[name] = lambda: KeyError('missing key')
    else:
      out[name] = (lambda c=cls: c('message', 42))
  return out


FACTORIES = {}
SITES = ['body', 'reference', 'scoped_reference', 'in_scope_body', 'odd_repr_callable', 'odd_repr_partial']
DEPTHS = [1, 2, 3]


def all_factories():
  if not FACTORIES:
    FACTORIES.update(builtin_factories())
    FACTORIES.update(USER)
  return FACTORIES


def bound(tier):
  return '%d exception classes x %d raise sites x depths %r' % (len(all_factories()), len(SITES), DEPTHS)


C_DESCR = (type(OSError.errno), type(BaseException.args), type(SyntaxError.msg))


def attr_kind(orig, name):
  if name == 'args':
    return 'args'
  for base in type(orig).__mro__:
    if name in vars(base):
      d = vars(base)[name]
      if name in getattr(orig, '__dict__', {}) and not hasattr(type(d), '__set__'):
        return 'class_default_shadowed'
      if isinstance(d, property):
        return 'property'
      if isinstance(d, C_DESCR):
        return 'cmember' if base.__module__ == 'builtins' else 'slots'
      return 'class_attribute'
  if name in getattr(orig, '__dict__', {}):
    return 'instance_dict'
  return 'other'


def public_attrs(orig):
  out = {}
  for n in ['args'] + [n for n in dir(orig) if not n.startswith('_') and n != 'args']:
    try:
      v = getattr(orig, n)
    except Exception:  # pylint: disable=broad-except
      continue
    if callable(v) and not isinstance(v, type) and n not in getattr(orig, '__dict__', {}):
      continue  # methods (with_traceback, add_note, helper, ...) are compared by behaviour elsewhere
    out[n] = v
  return out


def run_case(cname, site, depth, res):
  harness.hard_reset()
  check_one(cname, site, depth, res, [cname, site, depth])


def run_seq(names, site, res):
  """Several exceptions raised one after another in ONE process state (no reset in between): whatever the first
  raise leaves behind (caches keyed by class, ...) must not change what the later ones deliver."""
  harness.hard_reset()
  for i, n in enumerate(names):
    check_one(n, site, 1 + (i % 2), res, ['seq', list(names), site])
  res.w('sequence_of_raises')


def check_one(cname, site, depth, res, desc):
  orig = all_factories()[cname]()
  CURRENT[0] = orig
  cls = type(orig)
  is_exc = isinstance(orig, Exception)
  attrs = public_attrs(orig)
  res.case((repr(desc), cname), len(attrs) > 1 or len(orig.args) > 1)
  fn = {1: RAISER, 2: MID, 3: OUTER}[depth]
  names = {1: ['raiser'], 2: ['raiser', 'mid'], 3: ['raiser', 'mid', 'outer']}[depth]
  scope = ''
  try:
    if site in ('odd_repr_callable', 'odd_repr_partial'):
      names = ['odd_repr' if site == 'odd_repr_callable' else 'odd_partial']
      scope = 'sc'
      with gin.config_scope('sc'):
        (ODD if site == 'odd_repr_callable' else ODD_PARTIAL)()
    elif site == 'body':
      fn()
    elif site == 'in_scope_body':
      scope = 'sc/inner'
      with gin.config_scope('sc/inner'):
        fn()
    elif site == 'reference':
      gin.bind_parameter('c17.consumer.p', cfg.ConfigurableReference('c17.' + fn.__name__, True))
      CONSUMER()
    else:
      scope = 'rs'
      gin.bind_parameter('c17.consumer.p', cfg.ConfigurableReference('rs/c17.' + fn.__name__, True))
      CONSUMER()
    res.violation('not_raised', '%r: no exception reached the caller' % (desc,), desc)
    return
  except BaseException as e:  # pylint: disable=broad-except
    got = e
  res.outcome('%s:%s' % ('exc' if is_exc else 'base', type(got).__name__ == cls.__name__))
  if not is_exc:
    if got is not orig:
      res.violation('baseexception_altered', '%r: non-Exception %r did not pass through untouched: got %r' %
                    (desc, orig, got), desc)
    else:
      res.w('baseexception_untouched')
    return
  # ---- type
  if not isinstance(got, cls):
    if isinstance(got, TypeError) and not issubclass(cls, TypeError):
      res.violation('replaced_by_typeerror', '%r: a %s was raised but the caller receives %r (the proxy could not be '
                    'constructed)' % (desc, cls.__name__, got), desc)
    else:
      res.violation('wrong_type', '%r: raised %s, caller receives %r' % (desc, cls.__name__, got), desc)
    return
  caught = False
  try:
    raise got
  except cls:
    caught = True
  except BaseException:  # pylint: disable=broad-except
    pass
  if not caught or type(got).__name__ != cls.__name__ or type(got).__module__ != cls.__module__:
    res.violation('not_same_class', '%r: caller receives %s.%s' % (desc, type(got).__module__, type(got).__name__), desc)
    return
  res.w('same_class_caught')
  # ---- traceback
  tb = got.__traceback__
  last = None
  while tb is not None:
    last = tb.tb_frame.f_code.co_name
    tb = tb.tb_next
  if last not in ('raiser', '__call__', '_raise_with'):
    res.violation('traceback_lost', '%r: traceback ends in %r, not in the raising frame' % (desc, last), desc)
    return
  res.w('traceback_kept')
  # ---- message
  # (the extension may be carried as exception notes, which tracebacks display after the message)
  s, so = str(got) + ''.join('\n  ' + n for n in getattr(got, '__notes__', []) or [] if isinstance(n, str) and 'configurable' in n), str(orig)
  if cname in MESSAGE_OPTIONAL:
    pass
  elif not s.startswith(so) or not all(("configurable '%s'" % n) in s for n in names) or (scope and scope not in s):
    res.violation('message', '%r: str() is %r; expected %r extended by a note naming %r and scope %r' %
                  (desc, s, so, names, scope), desc)
    return
  res.w('message_extended')
  if scope:
    res.w('scope_named')
  # ---- attributes
  for n, v in attrs.items():
    try:
      gv = getattr(got, n)
      ok = gv is v or gv == v
    except Exception as e:  # pylint: disable=broad-except
      gv, ok = 'raised %r' % (e,), False
    if not ok:
      res.violation('attr_lost:' + attr_kind(orig, n), '%r: attribute %s reads %r on the received exception, %r on the '
                    'original' % (desc, n, gv, v), desc)
    elif attr_kind(orig, n) in ('instance_dict', 'slots', 'property', 'class_attribute'):
      res.w('user_attribute_kept')
  if depth == 3:
    res.w('nested_depth3')
  if 'reference' in site:
    res.w('reference_site')


SEQ_CLASSES = ['UBase', 'USub', 'USubSub', 'UExtra', 'UMulti', 'UOs', 'KeyError', 'LookupError', 'OSError',
               'FileNotFoundError', 'UStr', 'USlots']


def run_annotated(cname, depth, res):
  """The exception raised inside configurable `annotating_mid` is the (proxy) object it annotated and re-raised:
  the caller must read the annotation and the rewritten args on what it receives, at any further nesting."""
  desc = ['annotated', cname, depth]
  harness.hard_reset()
  orig = all_factories()[cname]()
  CURRENT[0] = orig
  res.case(tuple(desc), True)
  base_args = tuple(orig.args)
  try:
    (ANN_MID if depth == 2 else ANN_OUTER)()
    res.violation('not_raised', '%r: nothing raised' % (desc,), desc)
    return
  except Exception as e:  # pylint: disable=broad-except
    got = e
  if not isinstance(got, type(orig)):
    return  # construction failures are reported by the plain cases (open finding)
  want = ('annotated', id(orig) % 7)
  r = getattr(got, 'retryable', '<missing>')
  if r != want:
    res.violation('midway_annotation_lost', '%r: attribute set on the exception inside an intermediate configurable reads '
                  '%r for the caller, expected %r' % (desc, r, want), desc)
    return
  if tuple(got.args) != base_args + ('seen by annotating_mid',):
    res.violation('midway_args_lost', '%r: args rewritten inside an intermediate configurable read %r for the caller, '
                  'expected %r' % (desc, got.args, base_args + ('seen by annotating_mid',)), desc)
    return
  res.w('midway_annotation_kept')
  res.outcome('annotated')


def run_midway_field(kind, res):
  """A plain frame between two configurables completes the exception (sets a field its message is rendered from, reads
  fields the class serves through its own __getattr__): the caller sees the completed exception, message included."""
  desc = ['midway_field', kind]
  harness.hard_reset()
  res.case(tuple(desc), True)

  class SlotMsg(Exception):
    __slots__ = ('where',)

    def __init__(self, what):
      super().__init__(what)
      self.where = None

    def __str__(self):
      return '%s at %s' % (self.args[0], self.where)

  class ApiError(Exception):
    """Serves the fields of its response body through __getattr__ (they are in neither vars() nor dir())."""

    def __init__(self, msg, body):
      super().__init__(msg)
      self._body = body

    def __getattr__(self, name):
      try:
        return self.__dict__['_body'][name]
      except KeyError:
        raise AttributeError(name) from None

  @gin.configurable(module='c17')
  def inner_reader():
    if kind == 'oserror_filename':
      raise FileNotFoundError(2, 'No such file or directory')
    if kind == 'slot_in_str':
      raise SlotMsg('parse error')
    raise ApiError('bad request', {'request_id': 'req-7f3a', 'status': 400})

  def plain_mid():
    try:
      inner_reader()
    except OSError as e:
      e.filename = 'tables/users.csv'
      raise
    except SlotMsg as e:
      e.where = 'line 7'
      raise

  @gin.configurable(module='c17')
  def pipeline():
    plain_mid()
  try:
    pipeline()
    res.violation('not_raised', '%r: nothing raised' % (desc,), desc)
    return
  except Exception as e:  # pylint: disable=broad-except
    got = e
  text = str(got)
  if kind == 'oserror_filename':
    ok = isinstance(got, FileNotFoundError) and got.filename == 'tables/users.csv' and \
        text.startswith("[Errno 2] No such file or directory: 'tables/users.csv'")
  elif kind == 'slot_in_str':
    ok = isinstance(got, SlotMsg) and got.where == 'line 7' and text.startswith('parse error at line 7')
  else:
    ok = isinstance(got, ApiError) and getattr(got, 'request_id', None) == 'req-7f3a' and getattr(got, 'status', None) == 400 \
        and text.startswith('bad request')
  if not ok or "configurable 'inner_reader'" not in text or "configurable 'pipeline'" not in text:
    res.violation('message' if kind != 'getattr_hook' else 'attr_lost:getattr_hook', '%r: the caller receives %r with str() %r' %
                  (desc, got, text), desc)
  else:
    res.w('completed_midway_seen_by_caller')
  res.outcome('midway_field')


# ------------------------------------------------------------------ exceptions consumed by the interpreter itself
# (the interpreter reads some type-specific fields straight from the C struct, not through attribute lookup; run in a
#  subprocess because a wrong struct can crash the process)
INTERP = {
    'stopiteration_yield_from': '''
@gin.configurable
def nxt():
  raise StopIteration(42)
class It:
  def __iter__(self): return self
  def __next__(self): return nxt()
def g():
  return (yield from It())
try:
  next(g())
  out = 'no exception'
except StopIteration as e:
  out = e.value
print(json.dumps(out))
''',
    'stopiteration_nested_yield_from': '''
@gin.configurable
def nxt():
  raise StopIteration('v')
@gin.configurable
def outer():
  return nxt()
class It:
  def __iter__(self): return self
  def __next__(self): return outer()
def g():
  return (yield from It())
try:
  next(g())
  out = 'no exception'
except StopIteration as e:
  out = e.value
print(json.dumps(out))
''',
    'exception_group_except_star': '''
@gin.configurable
def grp():
  raise ExceptionGroup('grp', [ValueError(1), KeyError('k')])
seen = []
try:
  grp()
except* ValueError as eg:
  seen.append(['ValueError', [type(x).__name__ for x in eg.exceptions]])
except* KeyError as eg:
  seen.append(['KeyError', [type(x).__name__ for x in eg.exceptions]])
print(json.dumps(seen))
''',
    'syntaxerror_format': '''
import traceback
@gin.configurable
def syn():
  raise SyntaxError('bad thing', ('f.py', 3, 5, 'x = = 1'))
try:
  syn()
except SyntaxError as e:
  lines = traceback.format_exception_only(type(e), e)
  out = [e.filename, e.lineno, e.offset, e.text, any('f.py' in l and '3' in l for l in lines), any('x = = 1' in l for l in lines)]
print(json.dumps(out))
''',
    'oserror_errno_match': '''
import errno
@gin.configurable
def ose():
  raise FileNotFoundError(errno.ENOENT, 'missing', '/p')
try:
  ose()
except FileNotFoundError as e:
  out = [e.errno, e.strerror, e.filename, str(e).startswith('[Errno 2] missing')]
print(json.dumps(out))
''',
}
INTERP['exception_group_subclass_with_derive'] = '''
class MyGroup(ExceptionGroup):
  def derive(self, excs):
    return type(self)(self.message, excs)
@gin.configurable
def grp():
  raise MyGroup('g', [ValueError(1), TypeError(2)])
@gin.configurable
def outer():
  grp()
seen = []
for f in (grp, outer):
  try:
    try:
      try:
        f()
      except* ValueError as eg:
        seen.append(['ValueError', isinstance(eg, MyGroup), [type(x).__name__ for x in eg.exceptions]])
    except* TypeError as eg:
      seen.append(['TypeError', isinstance(eg, MyGroup), [type(x).__name__ for x in eg.exceptions]])
  except BaseException as e:
    seen.append(['escaped', type(e).__name__])
print(json.dumps(seen))
'''
INTERP['typeerror_with_braces_in_caller_keywords'] = '''
@gin.configurable
def f2(a, b=2, **kw):
  raise TypeError('boom')
@gin.configurable
def f3(a, b=2, **kw):
  return a
out = []
for fn in (f2, f3):
  for k in ('{oops}', '{}', '{0.__class__}', 'plain'):
    try:
      fn(**{k: 1})
      out.append('no exception')
    except Exception as e:
      out.append(type(e).__name__)
print(json.dumps(out))
'''
INTERP_WANT = {
    'exception_group_subclass_with_derive': [['ValueError', True, ['ValueError']], ['TypeError', True, ['TypeError']]] * 2,
    'typeerror_with_braces_in_caller_keywords': ['TypeError'] * 8,
    'stopiteration_yield_from': 42, 'stopiteration_nested_yield_from': 'v',
    'exception_group_except_star': [['ValueError', ['ValueError']], ['KeyError', ['KeyError']]],
    'syntaxerror_format': ['f.py', 3, 5, 'x = = 1', True, True],
    'oserror_errno_match': [2, 'missing', '/p', True],
}


def run_interp(name, res):
  import json as _json
  import subprocess
  case = ['interp', name]
  res.case(tuple(case), True)
  prog = 'import sys, json\nsys.path.insert(0, %r)\nimport gin\n' % harness.REPO + INTERP[name]
  p = subprocess.run([sys.executable, '-B', '-c', prog], capture_output=True, text=True, timeout=120)
  res.outcome('interp:rc%d' % p.returncode)
  if p.returncode != 0:
    res.violation('interpreter_level:' + name, '%r: the exception consumed by the interpreter: process exited %d '
                  '(negative = killed by signal, -11 = segmentation fault); stderr tail %r' %
                  (case, p.returncode, p.stderr[-300:]), case)
    return
  got = _json.loads(p.stdout.strip().splitlines()[-1])
  if got != INTERP_WANT[name]:
    res.violation('interpreter_level:' + name, '%r: got %r, expected %r' % (case, got, INTERP_WANT[name]), case)
  else:
    res.w('consumed_by_interpreter')


def gen(tier):
  for kind in ('oserror_filename', 'slot_in_str', 'getattr_hook'):
    yield ['midway_field', kind]
  for name in INTERP:
    yield ['interp', name]
  for c, s, d in itertools.product(sorted(all_factories()), SITES, DEPTHS):
    if c == 'ULocked' and s not in ('body', 'reference'):
      continue   # contextlib itself assigns exc.__traceback__ when such an exception leaves a `with config_scope` block
    yield [c, s, d]
  for c in ['ValueError', 'KeyError', 'UExtra', 'UBase', 'USub', 'UMulti', 'UStr', 'LookupError', 'RuntimeError']:
    for d in (2, 3):
      yield ['annotated', c, d]
  for a, b in itertools.permutations(SEQ_CLASSES, 2):
    yield ['seq', [a, b], 'body']
  for t in itertools.permutations(['UBase', 'USub', 'USubSub'], 3):
    for site in SITES:
      yield ['seq', list(t), site]
  if tier != 'quick':
    for t in itertools.permutations(SEQ_CLASSES[:8], 3):
      yield ['seq', list(t), 'reference']


NSH = 16


def shards(tier):
  return list(range(NSH))


def run_shard(i, tier):
  res = core.Result()
  for n, c in enumerate(gen(tier)):
    if n % NSH != i:
      continue
    try:
      if c[0] == 'interp':
        run_interp(c[1], res)
      elif c[0] == 'midway_field':
        run_midway_field(c[1], res)
      elif c[0] == 'seq':
        run_seq(c[1], c[2], res)
      elif c[0] == 'annotated':
        run_annotated(c[1], c[2], res)
      else:
        run_case(c[0], c[1], c[2], res)
    except Exception:  # pylint: disable=broad-except
      import traceback
      res.extra['harness_error'] = traceback.format_exc() + '\ncase=%r' % (c,)
      break
    if n % 61 == i:
      res.sample({'case': c})
  harness.hard_reset()
  return res


def replay(c):
  res = core.Result()
  if c[0] == 'interp':
    run_interp(c[1], res)
  elif c[0] == 'midway_field':
    run_midway_field(c[1], res)
  elif c[0] == 'seq':
    run_seq(c[1], c[2], res)
  elif c[0] == 'annotated':
    run_annotated(c[1], c[2], res)
  else:
    run_case(c[0], c[1], c[2], res)
  harness.hard_reset()
  return res
