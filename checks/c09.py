"""C09 — config scopes nest, are restored on every exit path, and are private to a thread.

Sequential part (E1): every nested scope program up to depth d whose levels choose an entry form (string,
'a/b' shorthand, list, None, '', a scope object yielded by an outer block, and invalid forms) and an exit
(normal / exception in body), with probe calls (plain, get_configurable('p/q/probe'), scoped @ref, raising
probe) at every level.  A list-of-lists ScopeModel runs in lock-step.

Thread part (E2): see run_threads — all schedules with <= k preemptions of 2-3 threads running such
programs; each thread must observe exactly what it observes running alone.
"""
import itertools

from vf import core
from vf import harness
from vf.harness import gin, cfg

ID = 'C09'
LEVEL = 'model_checking'
RULE = ('sequential: every program = sequence of nested levels (entry form x exit kind) to depth d, executed on real '
        'gin with a list-of-lists ScopeModel in lock-step (state = scope stack; transition = enter/exit/probe call); '
        'threads: every schedule with <=k preemptions (line granularity inside gin/*.py) of the thread harnesses; '
        'non-trivial = program has >=2 levels or an invalid/raising level, or schedule has >=1 preemption.')
ASSUMPTIONS = ['scope names from a fixed menu', 'scheduling points = line events in /repo/gin/*.py (sys.settrace)',
               'threads are real threading.Thread objects run one at a time under a baton scheduler']
WITNESSES = ['scoped_selector_equal_to_enclosing_scope', 'nested_append', 'list_replaces', 'none_clears', 'exception_exit_restores', 'invalid_restores',
             'scoped_selector_scope', 'scoped_ref_scope', 'outer_scope_object_reentered', 'thread_private',
             'baseexception_exit_restores', 'scope_objects_created_before_entry']


class Boom(Exception):
  pass


class TruthRaises:
  """Behaves like a numpy array in a boolean context."""

  def __bool__(self):
    raise ValueError('The truth value of an array is ambiguous')

  def __repr__(self):
    return 'TruthRaises()'


OBS = []


def _observe_and_scribble():
  """Returns the active scope; then edits the list current_scope() handed out (it is the caller's own copy)."""
  sc = gin.current_scope()
  seen = list(sc)
  sc.append('scribbled')
  sc[:0] = ['x']
  return seen


def setup():
  @gin.configurable(module='c09')
  def probe(x=None):
    OBS.append(('probe', _observe_and_scribble(), x))
    return x

  @gin.configurable(module='c09')
  def boom():
    OBS.append(('boom', _observe_and_scribble()))
    raise Boom()

  @gin.configurable(module='c09')
  def kbd():
    OBS.append(('kbd', _observe_and_scribble()))
    raise KeyboardInterrupt()      # not an Exception subclass

  @gin.configurable(module='c09')
  def consumer(v=None):
    return v

  @gin.configurable(module='c09')
  def consumer2(v=None):
    return v
  @gin.configurable(module='c09')
  def batches(n=4):                  # a generator function: its body runs when the consumer pulls items
    for i in range(n):
      yield i

  @gin.config_scope('dz')            # a scope used as a decorator, created once, here, at root scope
  def decorated():
    OBS.append(('decorated', _observe_and_scribble()))
  global DECORATED
  DECORATED = decorated
  global PROBE, BOOM, CONSUMER, CONSUMER2
  PROBE, BOOM, CONSUMER, CONSUMER2 = probe, boom, consumer, consumer2
  from vf import sched
  sched.install_model_locks()


ENTRY = {
    "'a'": 'a', "'a/b'": 'a/b', "['x']": ['x'], "['x','y']": ['x', 'y'], 'None': None, "''": '', '[]': [],
    'OUTER': 'OUTER', "'b'": 'b', "'a.b'": 'a.b',
    "!'a b'": 'a b', "!'a//b'": 'a//b', "!'/a'": '/a', "!'a/'": 'a/', '!5': 5, "!('a',)": ('a',),
    "!['a b']": ['a b'], '![5]': [5], '!TRUTH': 'TRUTH', "!['a','']": ['a', ''],
    "!{'a':1}": {'a': 1}, '!0': 0, '!3.5': 3.5, "!b'a'": b'a', "!'a\\n'": 'a\n', "!['a','b\\n']": ['a', 'b\n'],
}
VALID = [k for k in ENTRY if not k.startswith('!')]
INVALID = [k for k in ENTRY if k.startswith('!')]
LEAVES = ['none', 'probe', 'getconf_scoped', 'ref_scoped', 'boom_scoped', 'getconf_unscoped', 'kbd_scoped', 'kbd_ref_scoped',
          'decorated_fn', 'getconf_scope_of_enclosing', 'generator_scoped_lazy']


def bound(tier):
  return ('sequential depth<=%d over %d valid + %d invalid entry forms x 2 exits x %d leaf actions; threads: see '
          'coverage.thread_harnesses' % (3, len(VALID), len(INVALID), len(LEAVES)))


def model_enter(stack, entry, outer_objs):
  """Returns new top (list) or raises ValueError for invalid."""
  if entry == 'OUTER':
    return list(outer_objs[-1]) if outer_objs else list(stack[-1])
  if isinstance(entry, list):
    return list(entry)
  if entry is None or entry == '':
    return []
  return stack[-1] + entry.split('/')


def arg_for(entry, outer_objs, stack):
  if entry == 'OUTER':
    return outer_objs[-1] if outer_objs else gin.current_scope()
  if entry == 'TRUTH':
    return TruthRaises()
  if isinstance(entry, dict):
    return dict(entry)
  if isinstance(entry, list):
    return list(entry)
  return entry


def do_leaf(leaf, stack, res, prog):
  top = stack[-1]
  del OBS[:]
  if leaf == 'none':
    return
  if leaf == 'probe':
    PROBE()
    exp = [('probe', top, None)]
  elif leaf == 'getconf_unscoped':
    gin.get_configurable('c09.probe')()
    exp = [('probe', top, None)]
  elif leaf == 'getconf_scoped':
    gin.get_configurable('p/q/c09.probe')()
    exp = [('probe', ['p', 'q'], None)]
    res.w('scoped_selector_scope')
  elif leaf == 'ref_scoped':
    with gin.config_scope(['refs']):
      CONSUMER()
    exp = [('probe', ['p'], None)]
    res.w('scoped_ref_scope')
  elif leaf == 'getconf_scope_of_enclosing':
    # a scoped selector that spells exactly a scope sitting BELOW the top of the stack (or the top itself)
    below = [st for st in stack[:-1] if st and all(isinstance(c, str) and c.isidentifier() for c in st)]
    tgt = below[-1] if below else (top if top and all(isinstance(c, str) and c.isidentifier() for c in top) else ['p'])
    gin.get_configurable('/'.join(tgt) + '/c09.probe')()
    exp = [('probe', list(tgt), None)]
    if below:
      res.w('scoped_selector_equal_to_enclosing_scope')
  elif leaf == 'generator_scoped_lazy':
    # a generator configurable reached through a scoped selector and consumed lazily: what the consumer sees as active
    # scope between two items, inside a scope entered in between, and afterwards, is the consumer's own
    it = gin.get_configurable('p/c09.batches')()
    seen = [next(it), gin.current_scope(), next(it), gin.current_scope()]
    with gin.config_scope('between'):
      seen += [next(it), gin.current_scope()]
    seen.append(gin.current_scope())
    it.close()
    seen.append(gin.current_scope())
    want = [0, top, 1, top, 2, top + ['between'], top, top]
    if seen != want:
      res.violation('scope_after_leaf', 'lazily consumed scoped generator under %r: consumer observed %r, model %r '
                    '(program %r)' % (top, seen, want, prog), prog)
    else:
      res.w('lazy_generator_leaves_scope_alone')
    exp = []
  elif leaf == 'decorated_fn':
    DECORATED()
    exp = [('decorated', top + ['dz'])]
  elif leaf == 'kbd_scoped':
    try:
      gin.get_configurable('p/q/c09.kbd')()
    except KeyboardInterrupt:
      pass
    exp = [('kbd', ['p', 'q'])]
  elif leaf == 'kbd_ref_scoped':
    try:
      with gin.config_scope(['refs2']):
        CONSUMER2()
    except KeyboardInterrupt:
      pass
    exp = [('kbd', ['p'])]
  elif leaf == 'boom_scoped':
    try:
      gin.get_configurable('p/c09.boom')()
    except Boom:
      pass
    exp = [('boom', ['p'])]
  if OBS != exp:
    res.violation('probe_scope', 'leaf %s under %r observed %r, model %r (program %r)' % (leaf, top, OBS, exp, prog),
                  prog)
  if gin.current_scope() != top:
    res.violation('scope_after_leaf', 'after leaf %s current_scope()=%r, model %r (program %r)' %
                  (leaf, gin.current_scope(), top, prog), prog)


def run_level(prog, i, stack, outer_objs, res, cms=None):
  """Executes levels i.. of prog nested inside the current scope; compares with the model at every step."""
  if i == len(prog):
    return
  label, exit_kind, leaf = prog[i]
  entry = ENTRY[label]
  invalid = label.startswith('!')
  arg = arg_for(entry, outer_objs, stack)
  before = list(stack[-1])
  entered = False
  try:
    # `cms` = context managers created up front, before any level was entered (the scope a name is appended to is
    # the one active at ENTRY, not the one active when the context-manager object was created)
    with (cms[i] if cms is not None else gin.config_scope(arg)) as sc:
      entered = True
      res.transitions += 1
      if invalid:
        res.violation('invalid_entered', 'invalid scope %r was entered (program %r)' % (entry, prog), prog)
        return
      new_top = model_enter(stack, entry, outer_objs)
      stack.append(new_top)
      res.state(stack)
      cur = gin.current_scope()
      if cur != new_top or sc != new_top or gin.current_scope_str() != '/'.join(new_top):
        res.violation('scope_inside', 'after entering %r: current_scope()=%r yielded=%r, model %r (program %r)' %
                      (entry, cur, sc, new_top, prog), prog)
      if isinstance(entry, str) and entry and entry != 'OUTER' and before:
        res.w('nested_append')
      if isinstance(entry, list) and before and new_top[:len(before)] != before:
        res.w('list_replaces')
      if entry in (None, '') and before:
        res.w('none_clears')
      if entry == 'OUTER' and outer_objs:
        res.w('outer_scope_object_reentered')
      do_leaf(leaf, stack, res, prog)
      run_level(prog, i + 1, stack, outer_objs + [sc], res, cms)
      if gin.current_scope() != new_top:
        res.violation('scope_after_inner', 'after inner block current_scope()=%r, model %r (program %r)' %
                      (gin.current_scope(), new_top, prog), prog)
      if exit_kind == 'raise':
        raise Boom()
      if exit_kind == 'raise_base':
        raise KeyboardInterrupt()
  except KeyboardInterrupt:
    if entered:
      res.w('baseexception_exit_restores')
  except Boom:
    if exit_kind == 'raise' and entered:
      res.w('exception_exit_restores')
  except Exception as e:  # pylint: disable=broad-except
    if entered and not invalid:
      res.violation('unexpected_exception', 'valid entry %r raised %r (program %r)' % (entry, e, prog), prog)
    elif invalid:
      res.w('invalid_restores')
      res.outcome('invalid:' + type(e).__name__)
  else:
    if invalid and not entered:
      res.violation('invalid_silent', 'invalid scope %r raised nothing (program %r)' % (entry, prog), prog)
  if entered and not invalid:
    stack.pop()
  res.transitions += 1
  try:
    cur = gin.current_scope()
  except Exception as e:  # pylint: disable=broad-except
    cur = 'raised %r' % (e,)
  if cur != stack[-1]:
    res.violation('scope_not_restored', 'after leaving level %d (%r, exit=%s) current_scope()=%r, model %r '
                  '(program %r)' % (i, entry, exit_kind, cur, stack[-1], prog), prog)
    # re-synchronise so that one defect does not cascade
    harness.reset_scope_manager()
    for s_ in stack[1:]:
      cfg._SCOPE_MANAGER.enter_scope(list(s_))


def run_program(prog, res, precreate=False):
  harness.hard_reset()
  gin.bind_parameter(('refs', 'c09.consumer', 'v'), cfg.ConfigurableReference('p/c09.probe', True))
  gin.bind_parameter(('refs2', 'c09.consumer2', 'v'), cfg.ConfigurableReference('p/c09.kbd', True))
  stack = [[]]
  cms = None
  if precreate:
    with gin.config_scope('elsewhere/created'):
      cms = [gin.config_scope(arg_for(ENTRY[l[0]], [], stack)) for l in prog]
    res.w('scope_objects_created_before_entry')
  run_level(prog, 0, stack, [], res, cms)
  try:
    end = (gin.current_scope(), cfg._SCOPE_MANAGER.active_scopes)
  except Exception as e:  # pylint: disable=broad-except
    end = 'raised %r' % (e,)
  if end != ([], [[]]):
    res.violation('stack_not_base', 'after program %r the scope stack is %r, expected [[]]' % (prog, end), prog)
  else:
    with gin.config_scope('z'):
      if gin.current_scope() != ['z']:
        res.violation('stack_not_base', 'fresh scope after program %r is %r' % (prog, gin.current_scope()), prog)
  res.traces += 1


def programs(depth):
  """All programs (list of levels) up to depth; a level with an invalid entry ends the program."""
  def rec(prefix, d):
    if prefix:
      yield prefix
    if d == 0:
      return
    if prefix and prefix[-1][0].startswith('!'):
      return
    # programs of maximal depth vary the outermost level over a reduced menu (all forms still occur at depth < max)
    entries = VALID if (prefix or d < depth or depth < 3) else ["'a'", "['x','y']", 'None', "'a/b'", "''"]
    for entry in entries:
      for exit_kind in (('normal', 'raise', 'raise_base') if d == 1 else ('normal', 'raise')):
        leaves = LEAVES if d == 1 or not prefix else ['none', 'probe']
        for leaf in leaves:
          yield from rec(prefix + [(entry, exit_kind, leaf)], d - 1)
    for entry in INVALID:
      yield from rec(prefix + [(entry, 'normal', 'none')], d - 1)
  yield from rec([], depth)


NSH = 64


def _seq_shard(args):
  i, depth = args
  res = core.Result()
  seen_states = set()
  for idx, prog in enumerate(programs(depth)):
    if idx % NSH != i:
      continue
    res.case(('seq', repr(prog)), len(prog) >= 2 or prog[-1][1] == 'raise' or prog[-1][0].startswith('!'))
    try:
      run_program(prog, res)
      if len(prog) >= 2 and idx % 3 == 0 and not any(l[0] == 'OUTER' for l in prog):
        run_program(prog, res, precreate=True)
    except Exception:  # pylint: disable=broad-except
      import traceback
      res.extra['harness_error'] = traceback.format_exc() + '\nprogram=%r' % (prog,)
      break
    res.outcome('seq:%d' % len(prog))
    if idx % 5003 == i:
      res.sample({'program': core.jsonable(prog)})
  harness.hard_reset()
  return res


def run(ctx):
  res = core.Result()
  depth = 3      # (both tiers: depth 4 multiplies the programs by the size of the entry menu)
  for r in ctx.pmap(_seq_shard, [(i, depth) for i in range(NSH)]):
    res.merge(r)
  from checks import c09_threads
  c09_threads.run_threads(ctx, res)
  return res


def replay(obj):
  res = core.Result()
  if isinstance(obj, dict) and 'schedule' in obj:
    from checks import c09_threads
    return c09_threads.replay(obj)
  prog = [tuple(l) for l in obj]
  run_program(prog, res)
  if not any(l[0] == 'OUTER' for l in prog):
    run_program(prog, res, precreate=True)
  harness.hard_reset()
  return res
