"""C05 — macros and constants are late-bound named values.

E1: BFS over histories of macro definitions (all spellings, scope-like names, evaluated-reference values),
uses (single, repeated in a list, unevaluated), consumer calls, finalize, re-definition in a later file and
through an include — against a macro-table model with "last binding wins regardless of position" and per-use
re-evaluation counting.
E3: every ordered subset of constant names with shared suffixes x every suffix query used as %name.
"""
import io
import itertools

from vf import bfs
from vf import core
from vf import harness
from vf.harness import gin, cfg

ID = 'C05'
LEVEL = 'model_checking'
RULE = ('macros: BFS over operation histories (alphabet in coverage.alphabet) with a macro-table model in lock-step; '
        'after every transition the consumer is called (on a replay-safe copy of the state) and received values, the '
        'number of evaluations of the referenced configurable, and finalize outcome are compared. constants: every '
        'ordered subset of <=k names from the pool x every dotted-suffix query. non-trivial = history >= 2 ops / '
        'subset size >= 2.')
ASSUMPTIONS = ['behaviour of *using* an unbound macro without finalizing is not asserted (statement leaves it open)',
               'defining a constant that is a strict suffix of an existing one is not asserted']
WITNESSES = ['use_before_definition', 'redefinition_wins', 'redefinition_in_later_file', 'per_use_reevaluation',
             'macro_as_dict_key', 'finalize_rejects_unbound', 'finalize_rejects_unevaluated', 'scope_like_macro_name',
             'constant_identity', 'constant_suffix_unique', 'constant_ambiguous_rejected', 'constant_duplicate_rejected',
             'constant_invalid_rejected', 'special_syntax_same_macro', 'constant_identity_after_clear']

MEM = {'c05_f2.gin': 'm = 20\n', 'c05_inc.gin': "m = 30\nc05.c.q = [%m, 'inc']\n"}
GCALLS = []


def setup():
  @gin.configurable(module='c05')
  def g():
    GCALLS.append(1)
    return ('g', len(GCALLS))

  @gin.configurable(module='c05')
  def c(p='dp', q='dq', r='dr'):
    return (p, q, r)
  gin.config.register_file_reader(lambda p: io.StringIO(MEM[p]), lambda p: p in MEM)
  global C
  C = c


OPS = ['def_m1', 'def_m2', 'def_m_none', 'def_m_empty', 'def_mg', 'def_special4', 'def_ab3', 'use_p', 'use_q_list', 'use_r_ab', 'use_p_uneval',
       'file2_redefine', 'include_def_use', 'finalize', 'def_and_use_one_text', 'use_then_def_one_text',
       'def_gin_macro5', 'use_p_short_ref', 'use_r_uneval', 'def_m11_skip_unknown', 'def_ab_skip_list', 'def_a_prefix',
       'use_r_dictkey', 'use_r_dictkey_uneval', 'query_m', 'query_ab_value', 'file3_fails_midway', 'file3_repaired',
       'use_q_tuple', 'use_r_two_dictkeys', 'unlock_redefine_m', 'call_consumer']
TEXT = {
    'def_m1': 'm = 1', 'def_m2': 'm = 2', 'def_m_none': 'm = None', 'def_m_empty': "m = ''", 'def_mg': 'm = @c05.g()', 'def_special4': 'm/macro.value = 4',
    'def_gin_macro5': 'm/gin.macro.value = 5',
    'def_ab3': 'a/b = 3', 'use_p': 'c05.c.p = %m', 'use_q_list': "c05.c.q = [%m, 'x', %m]", 'use_r_ab': 'c05.c.r = %a/b',
    'use_p_uneval': 'c05.c.p = @m/macro', 'use_p_short_ref': 'c05.c.p = @m/macro()',
    'use_r_uneval': 'c05.c.r = @m/gin.macro', 'def_m11_skip_unknown': 'm = 11', 'def_ab_skip_list': 'a/b = 12', 'def_a_prefix': 'a = 77',
    'use_q_tuple': "c05.c.q = (%m, 'x', %a/b)",      # references inside a top-level TUPLE
    'use_r_two_dictkeys': "c05.c.r = {%m: 'vm', %a/b: 'vab'}",      # two different macros as keys of one dict
    'use_r_dictkey': "c05.c.r = {%a/b: 'v'}", 'use_r_dictkey_uneval': "c05.c.r = {@m/macro: 'v'}",
    'def_and_use_one_text': 'm = 7\nc05.c.p = %m\nm = 8',
    'use_then_def_one_text': 'c05.c.r = %a/b\na/b = 9',
}
G = ('G',)


class Tup(list):
  """Template of a tuple value (a list subclass so that the list logic applies; the delivered type is checked)."""


def bound(tier):
  return 'macro histories depth<=%d over %d operations; constants: ordered subsets of <=%d of %d pool names' % (
      (4, len(OPS), 4, len(POOL)) if tier == 'quick' else (6, len(OPS), 5, len(POOL)))


class World:

  def __init__(self):
    harness.hard_reset()
    del GCALLS[:]
    # Python constants whose names END like the scope-like macro `a/b` and like `m`: a macro is not a constant
    gin.constant('c05cst.deep.b', 'CONSTANT_B')
    gin.constant('c05cst.x.m.y', 'CONSTANT_M')
    self.macros = {}      # name -> value or G
    self.params = {}      # param -> template: ('M', name) / list / ('U', name)
    self.locked = False
    self.hist = []
    self._canon = None

  def ops(self):
    return OPS

  def canon(self):
    # (the state as it is right after the operation: the observations that follow call the consumer, and a history
    #  replayed as a prefix does not contain them)
    return self._canon if self._canon is not None else (harness.internal_state(),)

  def _model_apply(self, op):
    if op in ('def_m1', 'def_m2', 'def_special4', 'def_gin_macro5', 'def_m_none', 'def_m_empty'):
      self.macros['m'] = {'def_m1': 1, 'def_m2': 2, 'def_special4': 4, 'def_gin_macro5': 5, 'def_m_none': None,
                          'def_m_empty': ''}[op]
    elif op == 'def_mg':
      self.macros['m'] = G
    elif op == 'unlock_redefine_m':
      self.macros['m'] = 21        # bound again inside unlock_config(): the very next use sees it, locked or not
    elif op == 'def_ab3':
      self.macros['a/b'] = 3
    elif op == 'use_p':
      self.params['p'] = ('M', 'm')
    elif op == 'use_q_list':
      self.params['q'] = [('M', 'm'), 'x', ('M', 'm')]
    elif op == 'use_q_tuple':
      self.params['q'] = Tup([('M', 'm'), 'x', ('M', 'a/b')])
    elif op == 'use_r_ab':
      self.params['r'] = ('M', 'a/b')
    elif op == 'use_p_uneval':
      self.params['p'] = ('U', 'm')
    elif op == 'use_p_short_ref':
      self.params['p'] = ('M', 'm')
    elif op == 'use_r_uneval':
      self.params['r'] = ('U', 'm')
    elif op == 'use_r_dictkey':
      self.params['r'] = ('KM', 'a/b')      # the macro is the KEY of a dict value
    elif op == 'use_r_dictkey_uneval':
      self.params['r'] = ('KU', 'm')
    elif op == 'use_r_two_dictkeys':
      self.params['r'] = ('KM2', ('m', 'a/b'))
    elif op == 'def_m11_skip_unknown':
      self.macros['m'] = 11
    elif op == 'def_ab_skip_list':
      self.macros['a/b'] = 12
    elif op == 'def_a_prefix':
      self.macros['a'] = 77      # macro `a` is NOT macro `a/b`: binding it must not make %a/b count as bound
    elif op == 'file3_fails_midway':
      self.macros['m'] = 40          # the statements before the faulty one have taken effect
    elif op == 'file3_repaired':
      self.macros['m'] = 41
      self.macros['a/b'] = 42
    elif op == 'file2_redefine':
      self.macros['m'] = 20
    elif op == 'include_def_use':
      self.macros['m'] = 30
      self.params['q'] = [('M', 'm'), 'inc']
    elif op == 'def_and_use_one_text':
      self.macros['m'] = 8
      self.params['p'] = ('M', 'm')
    elif op == 'use_then_def_one_text':
      self.params['r'] = ('M', 'a/b')
      self.macros['a/b'] = 9

  def used(self):
    out = []
    for t in self.params.values():
      for x in (t if isinstance(t, list) else [t]):
        if isinstance(x, tuple) and x[0] == 'KM2':
          out.extend(('M', n) for n in x[1])
        elif isinstance(x, tuple):
          out.append(({'KM': 'M', 'KU': 'U'}.get(x[0], x[0]), x[1]))
    return out

  def apply(self, op, res, hist):
    self.hist.append(op)
    exp = 'ok'
    if op == 'finalize':
      if self.locked:
        exp = 'RuntimeError'
      elif any(k == 'U' for k, _ in self.used()) or any(n not in self.macros for _, n in self.used()):
        exp = 'ValueError'
      else:
        self.locked = True
    elif op in ('query_m', 'query_ab_value'):
      pass
    elif op == 'unlock_redefine_m':
      self._model_apply(op)
    elif op == 'call_consumer':
      pass               # a use of the macros (part of the history: whatever a use leaves behind is there afterwards)
    elif self.locked:
      exp = 'RuntimeError'
    else:
      self._model_apply(op)
    try:
      if op == 'finalize':
        gin.finalize()
      elif op in ('query_m', 'query_ab_value'):
        # a read-only probe ("is it set?"): whatever it answers, it changes nothing
        try:
          gin.query_parameter('%m' if op == 'query_m' else 'a/b/gin.macro.value')
        except ValueError:
          pass
      elif op == 'unlock_redefine_m':
        with gin.unlock_config():
          gin.parse_config('m = 21')
      elif op == 'call_consumer':
        try:
          C()
        except Exception:  # pylint: disable=broad-except
          pass
      elif op == 'file3_fails_midway':
        # the very same file name: first in a state that fails part-way (through an include), later repaired
        MEM['c05_f3.gin'] = "include 'c05_f3_inner.gin'\n"
        MEM['c05_f3_inner.gin'] = "m = 40\nc05.c.p = 1 +\n"
        try:
          gin.parse_config_file('c05_f3.gin')
        except SyntaxError:
          pass
      elif op == 'file3_repaired':
        MEM['c05_f3.gin'] = "include 'c05_f3_inner.gin'\na/b = 42\n"
        MEM['c05_f3_inner.gin'] = "m = 41\n"
        gin.parse_config_file('c05_f3.gin')
      elif op == 'file2_redefine':
        gin.parse_config_file('c05_f2.gin')
      elif op == 'include_def_use':
        gin.parse_config("include 'c05_inc.gin'")
      elif op == 'def_m11_skip_unknown':
        gin.parse_config(TEXT[op], skip_unknown=True)          # a macro definition never targets an unknown name
      elif op == 'def_ab_skip_list':
        gin.parse_config(TEXT[op], skip_unknown=['b', 'a/b', 'm'])
      else:
        gin.parse_config(TEXT[op])
      out = 'ok'
    except (RuntimeError, ValueError) as e:
      out = 'RuntimeError' if isinstance(e, RuntimeError) else 'ValueError'
    except Exception as e:  # pylint: disable=broad-except
      out = 'other:' + type(e).__name__
    self._canon = (harness.internal_state(),)
    if res is None:
      return
    res.outcome('%s:%s' % (op, out))
    if out != exp:
      res.violation('outcome:' + op, 'history %r: %s -> %s, model expects %s' % (hist, op, out, exp), hist)
      return
    if op == 'finalize' and exp == 'ValueError':
      if gin.config_is_locked():
        res.violation('finalize_rejected_but_locked', 'history %r: finalize rejected the macros but left the config '
                      'locked' % (hist,), hist)
      if any(k == 'U' for k, _ in self.used()):
        res.w('finalize_rejects_unevaluated')
      else:
        res.w('finalize_rejects_unbound')
    # ---- consumer call (only when every used macro is bound and evaluated: otherwise not asserted)
    used = self.used()
    if any(k == 'U' for k, _ in used) or any(n not in self.macros for _, n in used):
      return
    before = len(GCALLS)
    try:
      got = C()
    except Exception as e:  # pylint: disable=broad-except
      res.violation('call_raised', 'history %r: consumer call raised %r' % (hist, e), hist)
      return
    n_g = 0
    want = {}
    ok = True
    for prm, default in (('p', 'dp'), ('q', 'dq'), ('r', 'dr')):
      t = self.params.get(prm)
      g = got['pqr'.index(prm)]
      if t is None:
        ok = ok and g == default
        want[prm] = default
      elif isinstance(t, list):
        if isinstance(t, Tup):
          ok = ok and isinstance(g, tuple)
          g = list(g) if isinstance(g, tuple) else g
        w = []
        if not isinstance(g, list) or len(g) != len(t):
          ok = False
        for i, x in enumerate(t):
          if isinstance(x, tuple):
            v = self.macros[x[1]]
            if v is G:
              n_g += 1
              ok = ok and isinstance(g, list) and i < len(g) and isinstance(g[i], tuple) and g[i][0] == 'g' and \
                  g[i][1] > before
              w.append('<fresh g()>')
            else:
              ok = ok and isinstance(g, list) and i < len(g) and g[i] == v
              w.append(v)
          else:
            ok = ok and isinstance(g, list) and i < len(g) and g[i] == x
            w.append(x)
        want[prm] = w
      elif t[0] == 'KM2':
        vm, vab = self.macros[t[1][0]], self.macros[t[1][1]]
        ok = ok and isinstance(g, dict) and len(g) == 2 and sorted(g.values()) == ['vab', 'vm']
        if ok:
          km = [k for k, v in g.items() if v == 'vm'][0]
          kab = [k for k, v in g.items() if v == 'vab'][0]
          if vm is G:
            n_g += 1
            ok = isinstance(km, tuple) and km[0] == 'g' and km[1] > before
          else:
            ok = km == vm and type(km) is type(vm)
          ok = ok and kab == vab
        want[prm] = {'<fresh g()>' if vm is G else vm: 'vm', vab: 'vab'}
        res.w('macro_as_dict_key')
      elif t[0] == 'KM':
        v = self.macros[t[1]]
        ok = ok and isinstance(g, dict) and list(g.values()) == ['v'] and list(g) == [v]
        want[prm] = {v: 'v'}
        res.w('macro_as_dict_key')
      else:
        v = self.macros[t[1]]
        if v is G:
          n_g += 1
          ok = ok and isinstance(g, tuple) and g[0] == 'g' and g[1] > before
          want[prm] = '<fresh g()>'
        else:
          ok = ok and g == v
          want[prm] = v
    if isinstance(got[1], list):
      gs = [x[1] for x in got[1] if isinstance(x, tuple) and x and x[0] == 'g']
      ok = ok and len(gs) == len(set(gs))
    if not ok:
      res.violation('macro_value', 'history %r: consumer received %r, model %r (macros %r)' %
                    (hist, got, want, self.macros), hist)
      return
    if len(GCALLS) - before != n_g:
      res.violation('macro_reevaluation_count', 'history %r: g evaluated %d times, model %d (one per use)' %
                    (hist, len(GCALLS) - before, n_g), hist)
      return
    # witnesses
    h = self.hist
    first_use = next((i for i, o in enumerate(h) if o.startswith('use_') or 'use' in o), None)
    first_def = next((i for i, o in enumerate(h) if o.startswith('def_') or o == 'file2_redefine'), None)
    if used and first_use is not None and first_def is not None and first_use < first_def:
      res.w('use_before_definition')
    if used and sum(1 for o in h if o in ('def_m1', 'def_m2', 'def_special4', 'file2_redefine', 'def_mg')) >= 2:
      res.w('redefinition_wins')
    if used and 'file2_redefine' in h and h.index('file2_redefine') > 0:
      res.w('redefinition_in_later_file')
    if n_g >= 2:
      res.w('per_use_reevaluation')
    if ('M', 'a/b') in used:
      res.w('scope_like_macro_name')
    if used and ('def_special4' in h or 'def_gin_macro5' in h):
      res.w('special_syntax_same_macro')


# ----------------------------------------------------------------------------------- constants
POOL = ['K', 'q.K', 'p.q.K', 'r.q.K', 'r.K', 'J', 'p.J']
INVALID_NAMES = ['', '1K', 'a..K', 'a.K.', '.K', 'a/K', 'a K', 'K-1', 'K\n', 'a.K\n']


def suffixes(name):
  parts = name.split('.')
  return ['.'.join(parts[i:]) for i in range(len(parts))]


QUERIES = sorted({s for n in POOL for s in suffixes(n)} | {'x.K', 'q.J', 'Z'})


def m_matches(names, q):
  if q in names:
    return [q]
  return [n for n in names if n.endswith('.' + q)]


FALSY_CONSTS = [None, 0, '', False, (), 0.0]


def const_case(names, res, pre=None):
  desc = ['const', list(names)] + ([pre] if pre else [])
  falsy = pre == 'falsy_values'      # constants whose values are None, 0, '', ... are constants like any other
  harness.hard_reset()
  # history: interactive mode was left before (a balanced enter/exit, or a defensive exit that matches no enter):
  # definitions made afterwards are made OUTSIDE interactive mode
  if pre == 'unmatched_exit':
    gin.exit_interactive_mode()
  elif pre == 'enter_exit':
    gin.enter_interactive_mode()
    gin.exit_interactive_mode()
  elif pre == 'block_then_unmatched_exit':
    with gin.config.interactive_mode():
      pass
    gin.exit_interactive_mode()
  defined = {}
  for k, n in enumerate(names):
    obj = FALSY_CONSTS[k % len(FALSY_CONSTS)] if falsy else object()
    would_match = m_matches(list(defined), n)
    try:
      gin.constant(n, obj)
      out = 'ok'
    except ValueError:
      out = 'ValueError'
    except Exception as e:  # pylint: disable=broad-except
      out = type(e).__name__
    res.case(('def', tuple(names), n), len(names) >= 2)
    res.outcome('constdef:' + out)
    if would_match:
      # exact duplicate must be rejected; defining a strict suffix of an existing name: code rejects, not asserted
      if n in defined:
        if out != 'ValueError':
          res.violation('constant_duplicate_accepted', 'constants %r: duplicate definition of %r -> %s' %
                        (names, n, out), desc)
        else:
          res.w('constant_duplicate_rejected')
      if out == 'ok':
        defined[n] = obj
    else:
      if out != 'ok':
        res.violation('constant_rejected', 'constants %r: defining %r (no conflict) -> %s' % (names, n, out), desc)
        return
      defined[n] = obj
  for q in QUERIES:
    exp = m_matches(list(defined), q)
    res.case(('use', tuple(names), q), len(defined) >= 2)
    for how in ('macro', 'macro_in_list', 'query'):
      try:
        if how == 'query':
          got = gin.query_parameter(q) if '.' in q or True else None
        else:
          gin.parse_config('c05.c.p = %s' % ('%' + q if how == 'macro' else '[1, %' + q + ']'))
          got = C()[0]
          if how == 'macro_in_list':
            got = got[1]
        out = 'ok'
      except ValueError:
        got, out = None, 'ValueError'
      except Exception as e:  # pylint: disable=broad-except
        got, out = e, type(e).__name__
      res.outcome('constuse:%s:%d:%s' % (how, min(len(exp), 2), out))
      if len(exp) == 1:
        if out != 'ok' or got is not defined[exp[0]]:
          res.violation('constant_not_identical', 'constants %r: %%%s via %s -> %s %r, expected the very object bound '
                        'to %r' % (sorted(defined), q, how, out, got, exp[0]), desc)
        else:
          res.w('constant_identity')
          if q != exp[0]:
            res.w('constant_suffix_unique')
      elif len(exp) >= 2:
        if out == 'ok':
          res.violation('constant_ambiguous_accepted', 'constants %r: ambiguous %%%s via %s resolved to %r' %
                        (sorted(defined), q, how, got), desc)
        else:
          res.w('constant_ambiguous_rejected')
      else:
        if how == 'query' and out == 'ok':
          res.violation('constant_unknown_resolved', 'constants %r: unknown %s via query -> %r' %
                        (sorted(defined), q, got), desc)
        elif how != 'query' and out == 'ok' and any(got is o for o in defined.values()):
          res.violation('constant_unknown_resolved', 'constants %r: unknown %%%s delivered a constant' %
                        (sorted(defined), q), desc)
      harness.hard_reset() if False else None
      # drop the binding again so that the next query starts clean (constants stay)
      cfg._CONFIG.clear()
      cfg._CONFIG_PROVENANCE.clear()
      cfg._OPERATIVE_CONFIG.clear()


def const_clear_case(names, res):
  """Constants are the very objects also after clear_config() (which saves and restores them)."""
  desc = ['const_clear', list(names)]
  harness.hard_reset()
  objs = {}
  for i, n in enumerate(names):
    objs[n] = [{'payload': n}, object()][i % 2] if i % 3 else ['list', n]
    gin.constant(n, objs[n])
  res.case(('const_clear', tuple(names)), True)
  for rnd in range(2):
    gin.clear_config()
    for n in names:
      try:
        gin.parse_config('c05.c.p = %' + n)
        got = [C()[0], gin.query_parameter(n)]
      except Exception as e:  # pylint: disable=broad-except
        got = ['raised %r' % (e,)]
      if not all(g is objs[n] for g in got):
        res.violation('constant_not_identical_after_clear', 'constants %r: after %d clear_config() call(s) %%%s yields %r, '
                      'not the very object given to gin.constant' % (names, rnd + 1, n, got), desc)
        return
  res.w('constant_identity_after_clear')
  res.outcome('const_clear')


def invalid_const_case(name, res):
  harness.hard_reset()
  res.case(('invalid', name), True)
  try:
    gin.constant(name, 1)
    res.violation('constant_invalid_accepted', 'invalid constant name %r accepted' % (name,), ['invalid', name])
  except ValueError:
    res.w('constant_invalid_rejected')
    res.outcome('constdef:invalid')
  if sorted(cfg._CONSTANTS._selector_map) != ['gin.REQUIRED']:
    res.violation('constant_invalid_registered', 'rejected constant %r left an entry' % (name,), ['invalid', name])


def const_subsets(tier):
  k = 4 if tier == 'quick' else 5
  for n in range(1, k + 1):
    for t in itertools.permutations(POOL, n):
      yield list(t)
  for n in POOL[:3]:
    yield [n, n]
    yield [n, 'r.K', n]


def _const_shard(args):
  i, n, tier = args
  res = core.Result()
  for idx, names in enumerate(const_subsets(tier)):
    if idx % n == i:
      const_case(names, res)
      if len(names) <= 3:
        const_case(names, res, 'falsy_values')
      if len(names) <= 2:
        for pre in ('unmatched_exit', 'enter_exit', 'block_then_unmatched_exit'):
          const_case(names, res, pre)
      if idx % 53 == i % 53:
        res.sample({'constants': names})
  if i == 0:
    for nm in INVALID_NAMES:
      invalid_const_case(nm, res)
    for names in (['K'], ['q.K', 'r.K'], ['p.q.K', 'r.q.K', 'J'], ['K', 'p.J']):
      const_clear_case(names, res)
  harness.hard_reset()
  return res


def run(ctx):
  res = core.Result()
  res.extra['alphabet'] = OPS
  mod = __import__('checks.c05', fromlist=['x'])
  bfs.run_bfs(ctx, mod, 4 if ctx.quick else 6, res, max_states=200000 if ctx.quick else 2000000)
  n = ctx.jobs * 4
  for r in ctx.pmap(_const_shard, [(i, n, ctx.tier) for i in range(n)]):
    res.merge(r)
  return res


def replay(obj):
  if obj and obj[0] == 'const':
    res = core.Result()
    const_case(obj[1], res, obj[2] if len(obj) > 2 else None)
    harness.hard_reset()
    return res
  if obj and obj[0] == 'const_clear':
    res = core.Result()
    const_clear_case(obj[1], res)
    harness.hard_reset()
    return res
  if obj and obj[0] == 'invalid':
    res = core.Result()
    invalid_const_case(obj[1], res)
    return res
  mod = __import__('checks.c05', fromlist=['x'])
  return bfs.replay_history(mod, obj)
