"""C13 — registration is transparent to the registered function or class.

E3: callable kinds and class shapes x registration API x decorator form x scope, plus a rejection menu and
interactive mode.  Fresh objects are built for every case (gin.configurable mutates classes in place).
"""
import abc
import collections
import dataclasses
import functools
import inspect
import itertools
import pickle
import sys
import types
import typing

from vf import core
from vf import harness
from vf.harness import gin, cfg

ID = 'C13'
LEVEL = 'exploration'
RULE = ('(callable kind | class shape) x API {configurable, register, external_configurable} x decorator form {bare, '
        'name, name+module} x scope {none, s}; per case: original untouched (vars / metadata), direct call gets no '
        'binding, registry version (selector, reference, original object) does, class identity / isinstance / '
        'pickle; rejection menu x API leaves the registry unchanged; interactive mode scope. non-trivial = every case.')
ASSUMPTIONS = ['classes are created fresh per case in a synthetic module so that pickling by reference works',
               'builtins with positional-only parameters are checked for call transparency only']
WITNESSES = ['positional_caller_value_wins', 'registered_method_reached_through_original', 'direct_call_uninjected', 'registry_version_injected', 'vars_unchanged', 'metadata_preserved',
             'exact_type_instance', 'pickle_roundtrip', 'scoped_instance_is_original_class', 'rejection_atomic',
             'interactive_reregistration', 'interactive_mode_ends', 'registered_method_subclass_instance',
             'signature_preserved', 'builtin_callable']

MODNAME = 'c13_synth'
SYN = types.ModuleType(MODNAME)
sys.modules[MODNAME] = SYN
_N = [0]


def setup():
  @gin.configurable(module='c13')
  def consumer(v=None):
    return v
  global CONSUMER
  CONSUMER = consumer


def fresh(name):
  _N[0] += 1
  return '%s_%d' % (name, _N[0])


def put(obj, nm):
  obj.__module__ = MODNAME
  obj.__qualname__ = nm
  obj.__name__ = nm
  setattr(SYN, nm, obj)
  return obj


# ------------------------------------------------------------------------------------ callables
def k_def():
  def fn(a='da', x='dx'):
    """doc of fn."""
    return ('fn', a, x)
  fn.custom_attr = 7
  return put(fn, fresh('fn')), 'x', lambda r: r[2], dict(call=lambda f: f())


def k_lambda():
  fn = lambda a='da', x='dx': ('lam', a, x)  # pylint: disable=unnecessary-lambda-assignment
  return put(fn, fresh('lam')), 'x', lambda r: r[2], dict(call=lambda f: f())


def k_sum():
  return sum, 'start', lambda r: r, dict(call=lambda f: f([1, 2]), builtin=True, inj=10, direct_expect=3, inj_expect=13)


def k_len():
  return len, None, None, dict(call=lambda f: f([1, 2, 3]), builtin=True, direct_expect=3)


def k_str_upper():
  return str.upper, None, None, dict(call=lambda f: f('ab'), builtin=True, direct_expect='AB')


def k_method_wrapper():
  return object.__init__, None, None, dict(call=lambda f: f(object()), builtin=True, direct_expect=None)


def k_callable_obj():
  class Cobj:
    def __call__(self, a='da', x='dx'):
      return ('cobj', a, x)
  o = Cobj()
  return o, 'x', lambda r: r[2], dict(call=lambda f: f(), needs_name=True)


def k_bound_method():
  class Holder:
    def meth(self, a='da', x='dx'):
      return ('bound', a, x)
  return Holder().meth, 'x', lambda r: r[2], dict(call=lambda f: f(), needs_name=True)


def k_bound_wraps_method():
  def deco(fn):
    @functools.wraps(fn)
    def w(*a, **k):
      return fn(*a, **k)
    return w

  class Holder:
    @deco
    def meth(self, a='da', x='dx'):
      return ('boundwraps', a, x)
  return Holder().meth, 'x', lambda r: r[2], dict(call=lambda f: f(), needs_name=True)


def k_partial():
  def base(a, x='dx', y='dy'):
    return ('partial', a, x, y)
  p = functools.partial(base, 'A')
  return p, 'x', lambda r: r[2], dict(call=lambda f: f(), needs_name=True)


def k_wraps_decorated():
  def inner(a='da', x='dx'):
    """doc of inner."""
    return ('wrapsdeco', a, x)

  @functools.wraps(inner)
  def deco(*args, **kwargs):
    return inner(*args, **kwargs)
  put(deco, fresh('wdeco'))
  return deco, 'x', lambda r: r[2], dict(call=lambda f: f())


def k_lru_cached():
  def inner(a='da', x='dx'):
    return ('lru', a, x)
  cached = functools.lru_cache(maxsize=None)(inner)
  return cached, 'x', lambda r: r[2], dict(call=lambda f: f(), needs_name=True)


def k_double_wrapped():
  def inner(a='da', x='dx'):
    return ('double', a, x)

  def deco(fn):
    @functools.wraps(fn)
    def w(*args, **kwargs):
      return fn(*args, **kwargs)
    return w
  d = deco(deco(inner))
  put(d, fresh('dwrap'))
  return d, 'x', lambda r: r[2], dict(call=lambda f: f())


CALLABLES = {'wraps_decorated': k_wraps_decorated, 'lru_cached': k_lru_cached, 'double_wrapped': k_double_wrapped,
             'def': k_def, 'lambda': k_lambda, 'sum': k_sum, 'len': k_len, 'str.upper': k_str_upper,
             'object.__init__': k_method_wrapper, 'callable_obj': k_callable_obj, 'partial': k_partial,
             'bound_method': k_bound_method, 'bound_wraps_method': k_bound_wraps_method}


# ------------------------------------------------------------------------------------ classes
def c_init():
  class C:
    """doc C."""
    def __init__(self, a='da', x='dx'):
      self.a, self.x = a, x
  return put(C, fresh('CInit'))


class FalsyMeta(type):
  """Classes with a length (e.g. registries, enum-like containers) can be falsy."""
  def __len__(cls):
    return 0


def c_falsy():
  class C(metaclass=FalsyMeta):
    """doc C."""
    def __init__(self, a='da', x='dx'):
      self.a, self.x = a, x
  return put(C, fresh('CFalsy'))


def c_param_new_cls():
  class C:
    """doc C."""
    def __init__(self, new_cls='dn', x='dx'):
      self.new_cls, self.x = new_cls, x
  return put(C, fresh('CNewCls'))


def c_new():
  class C:
    """doc C."""
    def __new__(cls, a='da', x='dx'):
      o = super().__new__(cls)
      o.a, o.x = a, x
      return o
  return put(C, fresh('CNew'))


def c_both():
  class C:
    def __new__(cls, a='da', x='dx'):
      return super().__new__(cls)

    def __init__(self, a='da', x='dx'):
      self.a, self.x = a, x
  return put(C, fresh('CBoth'))


def c_neither():
  class Base:
    def __init__(self, a='da', x='dx'):
      self.a, self.x = a, x
  put(Base, fresh('CBase'))

  class C(Base):
    pass
  return put(C, fresh('CNeither'))


def c_meta():
  class Meta(type):
    def __call__(cls, *args, **kwargs):
      o = super().__call__(*args, **kwargs)
      o.meta_touched = True
      return o
  put(Meta, fresh('Meta'))

  class C(metaclass=Meta):
    def __init__(self, a='da', x='dx'):
      self.a, self.x = a, x
  return put(C, fresh('CMeta'))


def c_meta_new():
  class Meta(type):
    pass
  put(Meta, fresh('Meta'))

  class C(metaclass=Meta):
    def __new__(cls, a='da', x='dx'):
      o = super().__new__(cls)
      o.a, o.x = a, x
      return o
  return put(C, fresh('CMetaNew'))


def c_slots():
  class C:
    __slots__ = ('a', 'x')

    def __init__(self, a='da', x='dx'):
      self.a, self.x = a, x
  return put(C, fresh('CSlots'))


def c_namedtuple():
  nm = fresh('CNamed')
  C = collections.namedtuple(nm, ['a', 'x'], defaults=['da', 'dx'])
  return put(C, nm)


def c_abc():
  class A(abc.ABC):
    def __init__(self, a='da', x='dx'):
      self.a, self.x = a, x

    @abc.abstractmethod
    def f(self):
      pass
  put(A, fresh('CAbcBase'))

  class C(A):
    def f(self):
      return 1
  return put(C, fresh('CAbc'))


def c_dataclass():
  @dataclasses.dataclass
  class C:
    a: str = 'da'
    x: str = 'dx'
  return put(C, fresh('CData'))


def c_generic():
  T = typing.TypeVar('T')

  class C(typing.Generic[T]):
    def __init__(self, a='da', x='dx'):
      self.a, self.x = a, x
  return put(C, fresh('CGeneric'))


def c_with_method():
  class C:
    def __init__(self, a='da', x='dx'):
      self.a, self.x = a, x

    def meth(self, y='dy'):
      return y
  nm = fresh('CMeth')
  put(C, nm)
  C.meth.__module__ = MODNAME
  C.meth.__qualname__ = nm + '.meth'
  gin.register(C.meth)
  return C


def c_with_method_called_first():
  """The method is registered on its own AND its configurable version is used before the class is registered."""
  C = c_with_method()
  gin.get_configurable(C.meth)(C())
  gin.get_configurable(C.meth)(C(), y='early')
  return C


def c_with_renamed_method():
  class C:
    def __init__(self, a='da', x='dx'):
      self.a, self.x = a, x

    def run_one_step(self, y='dy'):
      return y
  nm = fresh('CRen')
  put(C, nm)
  C.run_one_step.__module__ = MODNAME
  C.run_one_step.__qualname__ = nm + '.run_one_step'
  gin.register('step')(C.run_one_step)       # registered under a name that differs from the attribute name
  C._c13_method = ('run_one_step', 'step')
  return C


CLASSES = {'__init__': c_init, '__new__': c_new, 'both': c_both, 'neither': c_neither, 'metaclass': c_meta,
           'metaclass+__new__': c_meta_new, '__slots__': c_slots, 'namedtuple': c_namedtuple, 'abc': c_abc,
           'dataclass': c_dataclass, 'generic': c_generic, 'with_registered_method': c_with_method,
           'falsy_class': c_falsy, 'param_named_new_cls': c_param_new_cls,
           'with_renamed_registered_method': c_with_renamed_method,
           'with_registered_method_called_first': c_with_method_called_first}
APIS = ['configurable', 'register', 'external_configurable']
FORMS = ['bare', 'name', 'name_module']
SCOPES = [None, 's']


def bound(tier):
  return '%d callable kinds + %d class shapes x %d APIs x %d decorator forms x %d scopes; %d rejection kinds' % (
      len(CALLABLES), len(CLASSES), len(APIS), len(FORMS), len(SCOPES), len(REJECTIONS))


def do_register(api, form, obj, base_name):
  """Returns (returned object, selector)."""
  name = base_name if form in ('name', 'name_module') else None
  module = 'c13.mod' if form == 'name_module' else None
  if api == 'external_configurable':
    ret = gin.external_configurable(obj, name=name, module=module)
  else:
    dec = getattr(gin, api)
    if form == 'bare':
      ret = dec(obj)
    elif form == 'name':
      ret = dec(name)(obj)
    else:
      ret = dec(name, module=module)(obj)
  conf = cfg._INVERSE_REGISTRY.get(obj) if not isinstance(obj, functools.partial) or True else None
  try:
    conf = cfg._INVERSE_REGISTRY[obj]
  except (KeyError, TypeError):
    conf = None
  return ret, conf.selector if conf else None


def snapshot_obj(o):
  try:
    d = dict(vars(o))
  except TypeError:
    d = {}
  meta = {k: getattr(o, k, None) for k in ('__name__', '__qualname__', '__doc__', '__module__', '__defaults__',
                                          '__kwdefaults__', '__wrapped__')}
  return d, meta


def case_callable(kind, api, form, scope, res):
  desc = ['callable', kind, api, form, scope]
  harness.hard_reset()
  obj, param, pick, info = CALLABLES[kind]()
  res.case(tuple(map(str, desc)), True)
  if info.get('needs_name') and form == 'bare':
    return
  if info.get('builtin') and api == 'configurable':
    pass
  base_name = fresh('reg')
  before = snapshot_obj(obj)
  try:
    sig_before = inspect.signature(obj)
  except (TypeError, ValueError):
    sig_before = None
  try:
    ret, selector = do_register(api, form, obj, base_name)
  except Exception as e:  # pylint: disable=broad-except
    res.violation('registration_failed', '%r: registration raised %r' % (desc, e), desc)
    return
  res.outcome('callable:%s' % api)
  if api != 'configurable':
    after = snapshot_obj(obj)
    if after != before:
      res.violation('original_altered', '%r: vars/metadata of the original changed: %r -> %r' % (desc, before, after),
                    desc)
      return
    res.w('vars_unchanged')
    if api == 'register' and ret is not obj:
      res.violation('register_returned_other', '%r: gin.register did not return the original object' % (desc,), desc)
  else:
    for attr in ('__name__', '__doc__'):
      if before[1][attr] is not None and getattr(ret, attr, None) != before[1][attr]:
        res.violation('metadata_lost', '%r: %s of the configurable is %r, original %r' %
                      (desc, attr, getattr(ret, attr, None), before[1][attr]), desc)
        return
    if sig_before is not None and not info.get('builtin'):
      if str(inspect.signature(ret)) != str(sig_before):
        res.violation('signature_lost', '%r: signature %s, original %s' % (desc, inspect.signature(ret), sig_before), desc)
        return
      res.w('signature_preserved')
    res.w('metadata_preserved')
  if selector is None:
    res.violation('not_in_registry', '%r: object not found in the inverse registry' % (desc,), desc)
    return
  call = info['call']
  if param is not None:
    inj = info.get('inj', 'INJ')
    gin.bind_parameter(((scope or ''), selector, param), inj)
  # direct call of the original
  if api != 'configurable':
    d = call(obj)
    exp = info.get('direct_expect', None)
    got = pick(d) if pick else d
    if param is not None and (got == info.get('inj', 'INJ') or ('direct_expect' in info and d != exp)):
      res.violation('direct_call_injected', '%r: direct call of the original returned %r' % (desc, d), desc)
      return
    if param is None and 'direct_expect' in info and d != exp:
      res.violation('direct_call_changed', '%r: direct call returned %r, expected %r' % (desc, d, exp), desc)
      return
    res.w('direct_call_uninjected')
  # registry versions
  versions = {}
  with gin.config_scope(scope):
    versions['get_configurable(obj)'] = lambda: call(gin.get_configurable(obj if api != 'configurable' else ret))
  versions['selector'] = lambda: call(gin.get_configurable((scope + '/' if scope else '') + selector))
  gin.bind_parameter('c13.consumer.v', cfg.ConfigurableReference((scope + '/' if scope else '') + selector, False))
  versions['reference'] = lambda: call(CONSUMER())
  if api != 'register':
    versions['returned'] = lambda: call(ret)
  for vn, thunk in versions.items():
    try:
      if vn in ('get_configurable(obj)', 'returned'):
        with gin.config_scope(scope):
          if vn == 'returned':
            r = call(ret)
          else:
            r = call(gin.get_configurable(obj if api != 'configurable' else ret))
      else:
        r = thunk()
    except Exception as e:  # pylint: disable=broad-except
      res.violation('registry_version_failed', '%r: registry version via %s raised %r' % (desc, vn, e), desc)
      return
    if param is not None:
      got = pick(r)
      want = info.get('inj_expect', info.get('inj', 'INJ'))
      if got != want:
        res.violation('registry_version_not_injected', '%r: registry version via %s returned %r (no binding applied)'
                      % (desc, vn, r), desc)
        return
      res.w('registry_version_injected')
    elif 'direct_expect' in info and r != info['direct_expect']:
      res.violation('registry_version_wrong', '%r: via %s returned %r' % (desc, vn, r), desc)
      return
  if info.get('builtin'):
    res.w('builtin_callable')
  # a caller value given positionally wins over a binding of that (first) parameter, whatever kind of callable it is
  if kind in ('def', 'callable_obj', 'bound_method', 'bound_wraps_method', 'wraps_decorated', 'double_wrapped'):
    try:
      gin.bind_parameter(((scope or ''), selector, 'a'), 'BA')
      reg = gin.get_configurable((scope + '/' if scope else '') + selector)
      r_pos, r_none = reg('CA'), reg()
    except Exception as e:  # pylint: disable=broad-except
      res.violation('registry_version_failed', '%r: positional caller value for a bound first parameter raised %r' %
                    (desc, e), desc)
      return
    if (r_pos[1], r_none[1]) != ('CA', 'BA'):
      res.violation('registry_version_not_injected', '%r: first parameter: positional call delivered %r, call without '
                    'arguments %r' % (desc, r_pos, r_none), desc)
      return
    res.w('positional_caller_value_wins')


def case_class(shape, api, form, scope, res):
  desc = ['class', shape, api, form, scope]
  harness.hard_reset()
  res.case(tuple(map(str, desc)), True)
  C = CLASSES[shape]()
  base_name = C.__name__ if form == 'bare' else fresh('regc')
  has_methods = shape in ('with_registered_method', 'with_renamed_registered_method', 'with_registered_method_called_first')
  m_attr, m_reg = getattr(C, '_c13_method', ('meth', 'meth'))
  before_vars = dict(vars(C))       # taken BEFORE any pickling (copyreg adds __slotnames__)
  meta_before = (C.__name__, C.__module__, C.__doc__, C.__qualname__)
  try:
    sig_before = str(inspect.signature(C))
  except (TypeError, ValueError):
    sig_before = None
  try:
    ret, selector = do_register(api, form, C, base_name)
  except Exception as e:  # pylint: disable=broad-except
    res.violation('registration_failed', '%r: registration raised %r' % (desc, e), desc)
    return
  res.outcome('class:%s' % api)
  if api != 'configurable':
    av = dict(vars(C))
    if av != before_vars:
      ch = {k for k in set(av) | set(before_vars) if av.get(k) is not before_vars.get(k)}
      res.violation('original_altered', '%r: vars of the original class changed: %r' % (desc, sorted(ch)), desc)
      return
    res.w('vars_unchanged')
    if api == 'register' and ret is not C:
      res.violation('register_returned_other', '%r: gin.register did not return the original class' % (desc,), desc)
      return
  gin.bind_parameter(((scope or ''), selector, 'x'), 'INJ')
  # direct construction of the original is never injected (register / external)
  if api != 'configurable':
    o = C()
    if getattr(o, 'x', None) == 'INJ':
      res.violation('direct_call_injected', '%r: direct construction of the original received the binding' % (desc,), desc)
      return
    res.w('direct_call_uninjected')
  with gin.config_scope(scope):
    V = gin.get_configurable(C if api != 'configurable' else ret)
  Vsel = gin.get_configurable((scope + '/' if scope else '') + selector)
  for vn, W in (('get_configurable(obj)', V), ('selector', Vsel)) + ((('returned', ret),) if api != 'register' else ()):
    try:
      if vn == 'returned':
        with gin.config_scope(scope):
          inst = W()
      else:
        inst = W()
    except Exception as e:  # pylint: disable=broad-except
      res.violation('registry_version_failed', '%r: constructing via %s raised %r' % (desc, vn, e), desc)
      return
    if getattr(inst, 'x', None) != 'INJ':
      res.violation('registry_version_not_injected', '%r: instance via %s has x=%r' % (desc, vn, getattr(inst, 'x', None)),
                    desc)
      return
    res.w('registry_version_injected')
    if not (inspect.isclass(W) and issubclass(W, C)):
      res.violation('not_subclass', '%r: configurable version via %s is not a subclass of the original' % (desc, vn), desc)
      return
    if (W.__name__, W.__module__, W.__doc__) != meta_before[:3]:
      res.violation('metadata_lost', '%r: via %s name/module/doc = %r, original %r' %
                    (desc, vn, (W.__name__, W.__module__, W.__doc__), meta_before[:3]), desc)
      return
    res.w('metadata_preserved')
    if not isinstance(inst, C):
      res.violation('instance_not_original', '%r: instance via %s is not an instance of the original class' % (desc, vn),
                    desc)
      return
    if not has_methods:
      if type(inst) is not C:
        res.violation('instance_type_differs', '%r: type(instance) via %s is %r, not the original class' %
                      (desc, vn, type(inst)), desc)
        return
      res.w('exact_type_instance')
      if scope:
        res.w('scoped_instance_is_original_class')
      # pickles whenever the original does
      try:
        ref = pickle.loads(pickle.dumps(C()))
        orig_pickles = type(ref) is C
      except Exception:  # pylint: disable=broad-except
        orig_pickles = False
      if orig_pickles:
        try:
          back = pickle.loads(pickle.dumps(inst))
          if type(back) is not C or getattr(back, 'x', None) != 'INJ':
            raise ValueError('round trip gave %r' % (back,))
          res.w('pickle_roundtrip')
        except Exception as e:  # pylint: disable=broad-except
          res.violation('pickle_fails', '%r: instance via %s does not pickle though the original does: %r' %
                        (desc, vn, e), desc)
          return
    else:
      res.w('registered_method_subclass_instance')
      if api == 'configurable':
        continue   # decorating in place does not rename the methods (they stay addressable as module.method)
      # the registered method: the original function stays un-injected, the registry's version (reached through the
      # instance of the configurable class, the selector, or the original function object) is injected
      msel = selector + '.' + m_reg
      try:
        gin.bind_parameter(msel + '.y', 'MINJ')
        direct = getattr(C(), m_attr)()
        via_inst = getattr(inst, m_attr)()
        via_obj = gin.get_configurable(getattr(C, m_attr))(C())
        via_sel = gin.get_configurable(msel)(C())
        bnd = gin.get_bindings(getattr(C, m_attr))
      except Exception as e:  # pylint: disable=broad-except
        res.violation('registered_method_unreachable', '%r: via %s: registered method of the class could not be bound / '
                      'reached through the original function object: %r' % (desc, vn, e), desc)
        return
      if direct != 'dy':
        res.violation('direct_call_injected', '%r: direct call of the original method returned %r' % (desc, direct), desc)
        return
      if (via_inst, via_obj, via_sel, bnd) != ('MINJ', 'MINJ', 'MINJ', {'y': 'MINJ'}):
        res.violation('registry_version_not_injected', '%r: registered method via instance/original object/selector gave '
                      '%r, bindings %r' % (desc, (via_inst, via_obj, via_sel), bnd), desc)
        return
      res.w('registered_method_reached_through_original')
  if shape == 'param_named_new_cls':
    try:
      by_caller = V(new_cls='caller').new_cls
      gin.bind_parameter(((scope or ''), selector, 'new_cls'), 'NC')
      by_binding = Vsel().new_cls
    except Exception as e:  # pylint: disable=broad-except
      res.violation('registry_version_failed', '%r: a constructor parameter named new_cls: %r' % (desc, e), desc)
      return
    if (by_caller, by_binding) != ('caller', 'NC'):
      res.violation('registry_version_not_injected', '%r: parameter new_cls: caller value %r, bound value %r' %
                    (desc, by_caller, by_binding), desc)
      return
  if api == 'configurable' and sig_before is not None:
    if str(inspect.signature(ret)) != sig_before:
      res.violation('signature_lost', '%r: signature %s, original %s' % (desc, inspect.signature(ret), sig_before), desc)
    else:
      res.w('signature_preserved')


# ------------------------------------------------------------------------------------ rejections
REJECTIONS = ['invalid_name', 'invalid_name_newline', 'invalid_module_newline', 'invalid_name_slash', 'invalid_module', 'other_object_same_name', 'allow_unknown',
              'deny_unknown', 'both_lists', 'allowlist_not_list', 'name_with_invalid_module_part', 'invalid_name_empty',
              'same_object_again_allow_unknown', 'same_object_again_deny_unknown', 'same_object_again_both_lists',
              # interactive mode was LEFT before (more exits than enters, in several ways): outside it the rule holds
              'other_object_same_name_after_unmatched_exit', 'other_object_same_name_after_enter_exit_exit',
              'other_object_same_name_after_block_and_exit']


class EqCallable:
  """Value-based equality: two distinct instances compare (and hash) equal."""

  def __init__(self, tag):
    self.tag = tag

  def __call__(self, a='da', x='dx'):
    return (self.tag, a, x)

  def __eq__(self, other):
    return isinstance(other, EqCallable)

  def __hash__(self):
    return 7


def case_reject(kind, api, what, res):
  desc = ['reject', kind, api, what]
  harness.hard_reset()
  res.case(tuple(desc), True)

  def mk():
    if what == 'fn':
      def f(a='da', x='dx'):
        return (a, x)
      return put(f, fresh('rfn'))
    if what == 'class_with_method':
      return c_with_method()   # its method is already registered on its own
    if what == 'equal_callable':
      _N[0] += 1
      return EqCallable(_N[0])
    return c_init()
  first = mk()
  nm = fresh('taken')
  gin.external_configurable(first, name=nm, module='c13')
  obj = mk()
  kw = {}
  name = fresh('rej')
  if kind == 'invalid_name':
    name = '1bad'
  elif kind == 'invalid_name_newline':
    name = 'trailing_newline\n'
  elif kind == 'invalid_module_newline':
    kw['module'] = 'c13.mod\n'
  elif kind == 'invalid_name_slash':
    name = 'a/b'
  elif kind == 'invalid_name_empty':
    name = ''                      # an explicitly empty name (the object's own name would have been fine)
  elif kind.startswith('same_object_again'):
    # a second registration call for the very same object and full name, this time with lists that are invalid
    obj, name = first, nm
    kw['module'] = 'c13'
    if kind.endswith('allow_unknown'):
      kw['allowlist'] = ['nope']
    elif kind.endswith('deny_unknown'):
      kw['denylist'] = ['nope']
    else:
      kw['allowlist'], kw['denylist'] = ['a'], ['x']
  elif kind == 'invalid_module':
    kw['module'] = 'bad..mod'
  elif kind == 'name_with_invalid_module_part':
    name = 'ok..name'
  elif kind.startswith('other_object_same_name'):
    name = nm
    kw['module'] = 'c13'
    if kind.endswith('after_unmatched_exit'):
      gin.exit_interactive_mode()
    elif kind.endswith('after_enter_exit_exit'):
      gin.enter_interactive_mode()
      gin.exit_interactive_mode()
      gin.exit_interactive_mode()
    elif kind.endswith('after_block_and_exit'):
      with gin.config.interactive_mode():
        pass
      gin.exit_interactive_mode()
  elif kind == 'allow_unknown':
    kw['allowlist'] = ['nope']
  elif kind == 'deny_unknown':
    kw['denylist'] = ['nope']
  elif kind == 'both_lists':
    kw['allowlist'] = ['a']
    kw['denylist'] = ['x']
  elif kind == 'allowlist_not_list':
    kw['allowlist'] = 'a'
  before_reg = dict(cfg._REGISTRY._selector_map)
  before_inv = dict(cfg._INVERSE_REGISTRY)
  before_renamed = dict(cfg._RENAMED_SELECTORS)
  before_vars = dict(vars(obj))
  if what == 'equal_callable' and api != 'external_configurable' and not kind.startswith('other_object_same_name'):
    pass
  try:
    if api == 'external_configurable':
      gin.external_configurable(obj, name=name, **kw)
    else:
      getattr(gin, api)(name, **kw)(obj)
    out = 'accepted'
  except (ValueError, TypeError) as e:
    out = type(e).__name__
  except Exception as e:  # pylint: disable=broad-except
    out = 'other:' + type(e).__name__
  res.outcome('reject:%s' % out)
  if out == 'accepted':
    res.violation('invalid_registration_accepted:' + kind, '%r: registration accepted' % (desc,), desc)
    return
  if (dict(cfg._REGISTRY._selector_map) != before_reg or dict(cfg._INVERSE_REGISTRY) != before_inv or
      dict(cfg._RENAMED_SELECTORS) != before_renamed):
    res.violation('rejected_registration_registered', '%r: rejected (%s) but the registry changed' % (desc, out), desc)
    return
  if dict(vars(obj)) != before_vars:
    res.violation('rejected_registration_mutated', '%r: rejected (%s) but the object was modified' % (desc, out), desc)
    return
  try:
    got = gin.get_configurable('c13.' + nm)
    ok = got is not None
  except Exception:  # pylint: disable=broad-except
    ok = False
  if not ok:
    res.violation('rejected_registration_broke_lookup', '%r: existing configurable no longer resolvable' % (desc,), desc)
    return
  res.w('rejection_atomic')


def case_interactive(api, how, res):
  desc = ['interactive', api, how]
  harness.hard_reset()
  res.case(tuple(desc), True)

  def mk(tag):
    def f(x='dx'):
      return (tag, x)
    return put(f, fresh('ifn'))
  nm = fresh('inter')
  one = mk('one')
  gin.external_configurable(one, name=nm, module='c13')
  # the first holder of the name is also registered under a second name, and looked up under scopes before the take-over
  nm2 = fresh('second_name')
  gin.external_configurable(one, name=nm2, module='c13zoo')
  gin.bind_parameter('c13zoo.%s.x' % nm2, 'Z')
  scoped_before = (gin.get_configurable('sc/c13.' + nm)(), gin.get_configurable('sc/deep/c13.' + nm)())
  if scoped_before != (('one', 'dx'), ('one', 'dx')):
    res.violation('registry_version_failed', '%r: scoped lookups before the take-over gave %r' % (desc, scoped_before), desc)
    return

  def reg(tag):
    o = mk(tag)
    if api == 'external_configurable':
      gin.external_configurable(o, name=nm, module='c13')
    else:
      getattr(gin, api)(nm, module='c13')(o)
  # outside: rejected
  try:
    reg('two')
    res.violation('reregistration_outside_interactive', '%r: re-registration outside interactive mode accepted' % (desc,),
                  desc)
    return
  except ValueError:
    pass
  try:
    if how == 'context':
      with gin.config.interactive_mode():
        reg('three')
    elif how == 'context_exception':
      try:
        with gin.config.interactive_mode():
          reg('three')
          raise KeyError('leave by exception')
      except KeyError:
        pass
    else:
      gin.enter_interactive_mode()
      reg('three')
      gin.exit_interactive_mode()
  except Exception as e:  # pylint: disable=broad-except
    res.violation('interactive_reregistration_failed', '%r: re-registration inside interactive mode raised %r' %
                  (desc, e), desc)
    return
  r = gin.get_configurable('c13.' + nm)()
  if r[0] != 'three':
    res.violation('interactive_reregistration_ignored', '%r: lookup still returns %r' % (desc, r), desc)
    return
  # ... also through scoped lookups that were made before the name changed hands
  r_scoped = (gin.get_configurable('sc/c13.' + nm)(), gin.get_configurable('sc/deep/c13.' + nm)(),
              gin.get_configurable('fresh_scope/c13.' + nm)())
  if [x[0] for x in r_scoped] != ['three'] * 3:
    res.violation('interactive_reregistration_ignored', '%r: scoped lookups of the name still return %r' % (desc, r_scoped), desc)
    return
  # ... and the previous holder stays reachable under its OTHER name, by selector and through the original object
  try:
    via = (gin.get_configurable('c13zoo.' + nm2)(), gin.get_configurable(one)(), gin.get_bindings(one))
  except Exception as e:  # pylint: disable=broad-except
    res.violation('registry_version_failed', '%r: the previous holder, still registered as c13zoo.%s, cannot be reached: %r' %
                  (desc, nm2, e), desc)
    return
  if via != (('one', 'Z'), ('one', 'Z'), {'x': 'Z'}):
    res.violation('registry_version_not_injected', '%r: previous holder under its other name: %r' % (desc, via), desc)
    return
  res.w('interactive_reregistration')
  res.outcome('interactive')
  try:
    reg('four')
    res.violation('interactive_mode_leaked', '%r: interactive mode still active after its block ended' % (desc,), desc)
  except ValueError:
    res.w('interactive_mode_ends')


def gen(tier):
  for kind, api, form, scope in itertools.product(CALLABLES, APIS, FORMS, SCOPES):
    yield ['callable', kind, api, form, scope]
  for shape, api, form, scope in itertools.product(CLASSES, APIS, FORMS, SCOPES):
    yield ['class', shape, api, form, scope]
  for kind, api, what in itertools.product(REJECTIONS, APIS, ['fn', 'class', 'class_with_method', 'equal_callable']):
    yield ['reject', kind, api, what]
  for api, how in itertools.product(APIS, ['context', 'context_exception', 'explicit']):
    yield ['interactive', api, how]


def run_case(c, res):
  if c[0] == 'callable':
    case_callable(c[1], c[2], c[3], c[4], res)
  elif c[0] == 'class':
    case_class(c[1], c[2], c[3], c[4], res)
  elif c[0] == 'reject':
    case_reject(c[1], c[2], c[3], res)
  else:
    case_interactive(c[1], c[2], res)


NSH = 32


def shards(tier):
  return list(range(NSH))


def run_shard(i, tier):
  res = core.Result()
  for n, c in enumerate(gen(tier)):
    if n % NSH != i:
      continue
    try:
      run_case(c, res)
    except Exception:  # pylint: disable=broad-except
      import traceback
      res.extra['harness_error'] = traceback.format_exc() + '\ncase=%r' % (c,)
      break
    if n % 97 == i:
      res.sample({'case': c})
  harness.hard_reset()
  return res


def replay(c):
  res = core.Result()
  run_case(c, res)
  harness.hard_reset()
  return res
