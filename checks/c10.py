"""C10 — REQUIRED parameters are filled from the config or the call fails cleanly.

E3: signature shapes x every placement of the REQUIRED marker among positional / keyword / signature-default /
**kwargs parameters (and a variadic position) x every subset of parameters bound (scope '' or 's') x active scope.
Oracle: CallModel with REQUIRED handling; registration-time validation against allow/deny lists.
"""
import itertools
import re

from vf import core
from vf import harness
from vf.harness import gin, cfg

ID = 'C10'
LEVEL = 'exploration'
RULE = ('signature shape x per-parameter caller mode {omitted, value positional, value keyword, REQUIRED positional, '
        'REQUIRED keyword} (legal combinations) x every subset of bound parameters x binding scope x active scope; one '
        'evaluation = one real call compared with the model (values and positions, or RuntimeError before the body '
        'naming exactly the unfilled parameters in signature order). non-trivial = at least one REQUIRED marker.')
ASSUMPTIONS = ['at most one **kwargs name is varied (order among several unfilled **kwargs names is unspecified)']
WITNESSES = ['builtin_positional_marker_filled', 'builtin_unfilled_named', 'positional_marker_filled_in_place', 'keyword_marker_filled', 'signature_required_filled',
             'missing_reported_in_order', 'body_not_run_on_missing', 'varargs_marker_rejected', 'kwargs_marker',
             'registration_rejected_denylist', 'registration_rejected_allowlist', 'class_shape', 'scoped_binding_fills']

REC = []
R = gin.REQUIRED


class EqAll:
  def __eq__(self, other):
    return True

  def __ne__(self, other):
    return False
  __hash__ = None


class EqRaises:
  def __eq__(self, other):
    return self

  def __bool__(self):
    raise ValueError('The truth value of an array is ambiguous')
  __hash__ = None


def caller_value(i):
  return (object(), EqAll(), EqRaises(), object())[i % 4]
SHAPES = {}


def _mk(name, sig, names, va, vk, cls=False):
  rec = ', '.join('%s=%s' % (n, n) for n in names) + (', args=args' if va else '') + (', kw=kw' if vk else '')
  ns = {'REC': REC, 'R': R}
  if cls:
    exec('class %s:\n  def __init__(self, %s):\n    REC.append(dict(%s))\n' % (name, sig, rec), ns)  # pylint: disable=exec-used
  else:
    exec('def %s(%s):\n  REC.append(dict(%s))\n' % (name, sig, rec), ns)  # pylint: disable=exec-used
  o = ns[name]
  o.__module__ = 'c10'
  return gin.configurable(o, module='c10')


SPECS = [
    # name, sig, positional, kwonly, defaults (REQ marks signature REQUIRED), *args, **kw, class?
    ('plain', 'a, b', ['a', 'b'], [], {}, False, False, False),
    ('dflt', "a, b='db'", ['a', 'b'], [], {'b': 'db'}, False, False, False),
    ('kwonly', "a, *, k='dk'", ['a'], ['k'], {'k': 'dk'}, False, False, False),
    ('vkw', "a, b='db', **kw", ['a', 'b'], [], {'b': 'db'}, False, True, False),
    ('vargs', "a, *args", ['a'], [], {}, True, False, False),
    ('sigreq', "a, b=R", ['a', 'b'], [], {'b': R}, False, False, False),
    ('sigreq_kw', "a, *, k=R, j='dj'", ['a'], ['k', 'j'], {'k': R, 'j': 'dj'}, False, False, False),
    ('sigreq2', "a=R, b=R", ['a', 'b'], [], {'a': R, 'b': R}, False, False, False),
    ('unsorted', "zz, mm=R, *, aa=R", ['zz', 'mm'], ['aa'], {'mm': R, 'aa': R}, False, False, False),
    ('Kls', "a, b=R, *, k='dk'", ['a', 'b'], ['k'], {'b': R, 'k': 'dk'}, False, False, True),
]


def setup():
  for name, sig, pos, kwo, dfl, va, vk, cls in SPECS:
    fn = _mk(name, sig, pos + kwo, va, vk, cls)
    SHAPES[name] = dict(fn=fn, pos=pos, kwo=kwo, dfl=dfl, va=va, vk=vk, cls=cls)
  # classes made configurable WITHOUT mutating them (dynamic subclass + metaclass __call__ wrapper)
  for api in ('external', 'register'):
    name = 'K' + api[:3]
    ns = {'REC': REC, 'R': R}
    exec('class %s:\n  def __init__(self, a, b=R, *, k="dk"):\n    REC.append(dict(a=a, b=b, k=k))\n' % name, ns)  # pylint: disable=exec-used
    c = ns[name]
    c.__module__ = 'c10'
    if api == 'external':
      w = gin.external_configurable(c, name=name, module='c10')
    else:
      gin.register(c)
      w = None
    SHAPES[name] = dict(fn=w, orig=c, pos=['a', 'b'], kwo=['k'], dfl={'b': R, 'k': 'dk'}, va=False, vk=False, cls=True)
  # a registered method whose selector is renamed when its class is registered afterwards
  ns = {'REC': REC, 'R': R, 'gin': gin}
  exec('class KM:\n  def __init__(self):\n    pass\n'
       '  def meth(self, a, b=R, *, k="dk"):\n    REC.append(dict(a=a, b=b, k=k))\n', ns)  # pylint: disable=exec-used
  KM = ns['KM']
  KM.__module__ = 'c10'
  KM.meth.__module__ = 'c10'
  KM.meth.__qualname__ = 'KM.meth'
  gin.register(KM.meth)
  gin.register(KM)
  SHAPES['KM.meth'] = dict(fn=None, orig=KM, method=True, pos=['a', 'b'], kwo=['k'], dfl={'b': R, 'k': 'dk'}, va=False,
                           vk=False, cls=False)


def bound(tier):
  return '%d shapes; all legal caller-mode combinations x all binding subsets x scopes {"",s} x active {[],[s]}' % len(SPECS)


MODES_POS = ['omit', 'vpos', 'vkw', 'rpos', 'rkw']
MODES_KW = ['omit', 'vkw', 'rkw']


def combos(sh):
  names = sh['pos'] + sh['kwo'] + (['z'] if sh['vk'] else [])
  choices = []
  for n in names:
    choices.append(MODES_POS if n in sh['pos'] else MODES_KW)
  for modes in itertools.product(*choices):
    m = dict(zip(names, modes))
    # positional prefix rule
    npos = 0
    ok = True
    for i, p in enumerate(sh['pos']):
      if m[p] in ('vpos', 'rpos'):
        if any(m[q] not in ('vpos', 'rpos') for q in sh['pos'][:i]):
          ok = False
        npos = i + 1
    if not ok:
      continue
    extras = [None]
    if sh['va'] and npos == len(sh['pos']):
      extras = [None, 'value', 'marker']
    for ex in extras:
      yield m, npos, ex


def run_case(sname, m, npos, extra, bound_names, bscope, active, res):
  sh = SHAPES[sname]
  desc = [sname, sorted(m.items()), npos, extra, sorted(bound_names), bscope, active]
  harness.hard_reset()
  del REC[:]
  sel = 'c10.' + sname
  def bval(n):
    return {'b': None, 'k': 0, 'mm': ''}.get(n, 'bound_' + n)   # falsy values are bound values like any other
  for n in bound_names:
    gin.bind_parameter((bscope, sel, n), bval(n))
  applicable = set(bound_names) if (bscope == '' or active == [bscope]) else set()
  names = sh['pos'] + sh['kwo'] + (['z'] if sh['vk'] else [])
  has_marker = any(v in ('rpos', 'rkw') for v in m.values()) or R in sh['dfl'].values() or extra == 'marker'
  res.case(tuple(map(repr, desc)), has_marker)
  args, kwargs, caller_vals = [], {}, {}
  salt = len(bound_names) + npos + len(active)
  for pi, p in enumerate(sh['pos'][:npos]):
    if m[p] == 'vpos':
      v = caller_value(salt + pi)
      caller_vals[p] = v
      args.append(v)
    else:
      args.append(R)
  for n in names:
    if m[n] == 'vkw':
      v = caller_value(salt + 1 + len(kwargs))
      caller_vals[n] = v
      kwargs[n] = v
    elif m[n] == 'rkw':
      kwargs[n] = R
  extra_val = caller_value(salt + 2) if extra == 'value' else None
  if extra == 'value':
    args.append(extra_val)
  elif extra == 'marker':
    args.append(R)
  # ---- model
  expect, missing, py_missing = {}, [], []
  for n in names:
    mode = m[n]
    if mode in ('vpos', 'vkw'):
      expect[n] = ('id', caller_vals[n])
    elif mode in ('rpos', 'rkw'):
      if n in applicable:
        expect[n] = ('eq', bval(n))
      else:
        missing.append(n)
    else:
      if n in applicable:
        expect[n] = ('eq', bval(n))
      elif n in sh['dfl']:
        if sh['dfl'][n] is R:
          missing.append(n)
        else:
          expect[n] = ('eq', sh['dfl'][n])
      elif n == 'z':
        pass
      else:
        py_missing.append(n)
  try:
    with gin.config_scope(list(active) if active else None):
      target = sh['fn']
      if sh.get('method'):
        with gin.config_scope(None):
          inst = gin.get_configurable(sh['orig'])()
        target = inst.meth
      elif target is None:
        target = gin.get_configurable(sh['orig'])
      target(*args, **kwargs)
    out, exc = 'ok', None
  except (RuntimeError, ValueError, TypeError) as e:
    out, exc = type(e).__name__, e
  except Exception as e:  # pylint: disable=broad-except
    out, exc = 'other:' + type(e).__name__, e
  res.outcome(out)
  # the marker must never reach the body
  for r in REC:
    vals = list(r.values())
    flat = []
    for v in vals:
      flat += list(v) if isinstance(v, tuple) else (list(v.values()) if isinstance(v, dict) else [v])
    if any(x is R for x in flat):  # identity only: some caller values have an unusual __eq__
      res.violation('marker_leaked', '%r: gin.REQUIRED itself was passed to the function: %r' % (desc, r), desc)
      return
  if extra == 'marker':
    if out != 'ValueError' or REC:
      res.violation('varargs_marker_accepted', '%r: REQUIRED in a variadic position -> %s (body ran=%s)' %
                    (desc, out, bool(REC)), desc)
    else:
      res.w('varargs_marker_rejected')
    return
  if missing:
    if out != 'RuntimeError' or REC:
      res.violation('missing_required_not_reported', '%r: unfilled %r -> %s %r (body ran=%s)' %
                    (desc, missing, out, exc, bool(REC)), desc)
      return
    res.w('body_not_run_on_missing')
    msg = str(exc)
    mm = re.search(r'not provided in config: (\[.*?\])', msg)
    listed = eval(mm.group(1)) if mm else None  # pylint: disable=eval-used
    order = [n for n in names if n in missing]
    if listed != order:
      res.violation('missing_required_names', '%r: error lists %r, expected exactly %r in signature order; message: %s'
                    % (desc, listed, order, msg[:300]), desc)
    elif sname.split('.')[-1] not in msg:
      res.violation('missing_required_no_name', '%r: error does not name the configurable: %s' % (desc, msg[:300]), desc)
    else:
      res.w('missing_reported_in_order')
    return
  if py_missing:
    if out != 'TypeError' or REC:
      res.violation('python_missing_not_typeerror', '%r: %r has no source -> %s' % (desc, py_missing, out), desc)
    return
  if out != 'ok' or len(REC) != 1:
    res.violation('call_failed', '%r: expected success, got %s %r' % (desc, out, exc), desc)
    return
  got = REC[0]
  for n in names:
    if n == 'z':
      gv = got['kw'].get('z', '<absent>') if sh['vk'] else '<absent>'
      if 'z' in expect:
        how, v = expect['z']
        if (gv is not v) if how == 'id' else (isinstance(gv, (EqAll, EqRaises)) or gv != v):
          res.violation('kwargs_value', '%r: **kw z received %r, model %r' % (desc, gv, v), desc)
          return
        if m['z'] == 'rkw':
          res.w('kwargs_marker')
      elif gv != '<absent>':
        res.violation('kwargs_value', '%r: **kw z received %r, model absent' % (desc, gv), desc)
        return
      continue
    how, v = expect[n]
    if (got[n] is not v) if how == 'id' else (isinstance(got[n], (EqAll, EqRaises)) or got[n] != v):
      res.violation('wrong_value', '%r: parameter %s received %r, model %s %r' % (desc, n, got[n], how, v), desc)
      return
    if m[n] == 'rpos':
      res.w('positional_marker_filled_in_place')
    elif m[n] == 'rkw':
      res.w('keyword_marker_filled')
    elif m[n] == 'omit' and sh['dfl'].get(n) is R:
      res.w('signature_required_filled')
  if sh['va'] and (len(got['args']) != (1 if extra == 'value' else 0) or
                   (extra == 'value' and got['args'][0] is not extra_val)):
    res.violation('varargs_value', '%r: *args received %r' % (desc, got['args']), desc)
  if sh['cls']:
    res.w('class_shape')
  if bscope == 's' and applicable and has_marker:
    res.w('scoped_binding_fills')


def reg_cases(res):
  """Signature-level REQUIRED on a denylisted / not allowlisted parameter is rejected at registration."""
  for kind in ('denylist', 'allowlist', 'ok_allow', 'ok_deny', 'denylist_kwonly', 'allowlist_class',
               'second_registration_denylist', 'second_registration_allowlist', 'second_registration_class'):
    harness.hard_reset()
    before = sorted(cfg._REGISTRY._selector_map)
    res.case(('reg', kind), True)

    def fn(a, b=R, *, k=R):
      return (a, b, k)
    fn.__module__ = 'c10'
    fn.__name__ = 'regprobe'

    class C:
      def __init__(self, a, b=R):
        pass
    C.__module__ = 'c10'
    try:
      if kind.startswith('second_registration'):
        # the same object registered before, under another name, without any restriction (that one is fine)
        target = C if kind.endswith('class') else fn
        gin.external_configurable(target, name='regprobe_first', module='c10')
        before = sorted(cfg._REGISTRY._selector_map)
        lists = {'allowlist': ['a']} if kind.endswith('allowlist') else {'denylist': ['b']}
        gin.external_configurable(target, name='regprobe_second', module='c10', **lists)
      elif kind == 'denylist':
        gin.configurable(fn, denylist=['b'])
      elif kind == 'denylist_kwonly':
        gin.configurable(fn, denylist=['k'])
      elif kind == 'allowlist':
        gin.configurable(fn, allowlist=['a'])
      elif kind == 'allowlist_class':
        gin.configurable(C, allowlist=['a'])
      elif kind == 'ok_allow':
        gin.configurable(fn, allowlist=['b', 'k'])
      else:
        gin.configurable(fn, denylist=['a'])
      out = 'ok'
    except ValueError:
      out = 'ValueError'
    except Exception as e:  # pylint: disable=broad-except
      out = type(e).__name__
    res.outcome('reg:' + out)
    after = sorted(cfg._REGISTRY._selector_map)
    if kind.startswith('ok'):
      if out != 'ok':
        res.violation('registration_wrongly_rejected', 'registration %s -> %s' % (kind, out), ['reg', kind])
    else:
      if out != 'ValueError' or after != before:
        res.violation('registration_required_not_rejected', 'registration with REQUIRED default on a %s parameter -> %s;'
                      ' registry changed=%s' % (kind, out, after != before), ['reg', kind])
      else:
        res.w('registration_rejected_denylist' if 'deny' in kind else 'registration_rejected_allowlist')
  harness.hard_reset()


# ----------------------------------------------------------------------------- C-implemented callables with named
# parameters (builtins, method descriptors) registered through external_configurable
def builtin_cases(res):
  import math  # pylint: disable=import-outside-toplevel
  cases = [
      ('pow', pow, {'exp': 3}, lambda f: f(2, R), 8, None),
      ('pow_kw', pow, {'exp': 3}, lambda f: f(2, exp=R), 8, None),
      ('pow_unfilled', pow, {}, lambda f: f(2, R), None, ['exp']),
      ('pow_both', pow, {'base': 2, 'exp': 5}, lambda f: f(R, R), 32, None),
      ('sum_start', sum, {'start': 10}, lambda f: f([1, 2], R), 13, None),
      ('isclose', math.isclose, {'b': 1.0}, lambda f: f(1.0, R), True, None),
      ('isclose_unfilled', math.isclose, {}, lambda f: f(R, R), None, ['a', 'b']),
  ]
  for name, fn, bindings, call, want, missing in cases:
    desc = ['builtin', name]
    harness.hard_reset()
    res.case(tuple(desc), True)
    try:
      cf = gin.external_configurable(fn, name='c10b_' + name, module='c10')
      for p, v in bindings.items():
        gin.bind_parameter('c10.c10b_%s.%s' % (name, p), v)
    except Exception as e:  # pylint: disable=broad-except
      res.violation('call_failed', '%r: registration / binding raised %r' % (desc, e), desc)
      continue
    try:
      got, out = call(cf), 'ok'
    except RuntimeError as e:
      got, out = str(e), 'RuntimeError'
    except Exception as e:  # pylint: disable=broad-except
      got, out = e, type(e).__name__
    res.outcome('builtin:' + out)
    if missing is None:
      if out != 'ok' or got != want:
        res.violation('call_failed', '%r: C-implemented configurable with bindings %r: %s %r, expected %r' %
                      (desc, bindings, out, got, want), desc)
      else:
        res.w('builtin_positional_marker_filled')
    else:
      names = [n for n in missing if ("'%s'" % n) in str(got)]
      if out != 'RuntimeError' or names != missing:
        res.violation('missing_required_names', '%r: expected a clean failure naming %r, got %s %r' %
                      (desc, missing, out, got), desc)
      else:
        res.w('builtin_unfilled_named')
  harness.hard_reset()


def odd_signature_cases(res):
  """Callables whose real calling convention differs from the signature Gin reads: a functools.wraps decorator that
  consumes a leading positional argument, positional-only parameters next to **kwargs.  Whatever Gin does with the
  marker there, it never hands it to the function, and an unfilled marker is a clean failure."""
  import functools  # pylint: disable=import-outside-toplevel
  seen = []

  def scale(x=1):
    seen.append(('scale', x))
    return x

  def tagged(fn):
    @functools.wraps(fn)
    def inner(tag, *a, **k):
      seen.append(('inner', tag, a, tuple(sorted(k.items()))))
      return fn(*a, **k)
    return inner

  def tag(name, /, **attrs):
    seen.append(('tag', name, tuple(sorted(attrs.items()))))
    return (name, attrs)

  def tag2(name, other='o', /, *rest, **attrs):
    seen.append(('tag2', name, other, rest, tuple(sorted(attrs.items()))))
    return (name, other, attrs)

  def _shared_init(self, a, b=R):
    seen.append(('K.__init__', a, b))
    self.a, self.b = a, b

  def _shared_new(cls, a, b=R):
    seen.append(('N.__new__', a, b))
    o = object.__new__(cls)
    o.a, o.b = a, b
    return o

  def mk_alias(kind):
    # `__init__ = _shared_init`: the constructor is found under a name that is not the function's own __name__
    ns = {'__init__': _shared_init} if kind == 'init' else {'__new__': _shared_new}
    return type('Alias_' + kind, (), ns)

  def mk_new_below_init():
    class CoopBase:
      def __init__(self, *args, **kwargs):
        seen.append(('CoopBase.__init__', args, tuple(sorted(kwargs.items()))))

    class Widget(CoopBase):
      def __new__(cls, size, colour=R):
        seen.append(('Widget.__new__', size, colour))
        o = super().__new__(cls)
        o.size, o.colour = size, colour
        return o
    return Widget

  def has_marker(x):
    if x is R:
      return True
    if isinstance(x, (tuple, list)):
      return any(has_marker(y) for y in x)
    return False
  cases = [
      ('wraps_consumes_positional', lambda: tagged(scale), {}, lambda f: f('tag', R), None),
      ('wraps_consumes_positional_bound', lambda: tagged(scale), {'x': 5}, lambda f: f('tag', R), None),
      ('wraps_consumes_positional_two', lambda: tagged(scale), {}, lambda f: f('tag', 3, R), None),
      ('posonly_kwargs_same_name', lambda: tag, {}, lambda f: f('input', name=R), ['name']),
      ('posonly_kwargs_other_name', lambda: tag, {}, lambda f: f('input', colour=R), ['colour']),
      ('posonly_two_kwargs_same_name', lambda: tag2, {}, lambda f: f('input', 'second', other=R), ['other']),
      ('posonly_rest_marker', lambda: tag2, {}, lambda f: f('input', 'second', R), None),
      ('own_new_below_base_init_unfilled', mk_new_below_init, {}, lambda f: f(3), ['colour']),
      ('own_new_below_base_init_marker', mk_new_below_init, {}, lambda f: f(R, 'red'), ['size']),
      ('init_alias_unfilled', lambda: mk_alias('init'), {}, lambda f: f(1), ['b']),
      ('init_alias_caller_marker', lambda: mk_alias('init'), {}, lambda f: f(1, R), ['b']),
      ('init_alias_filled', lambda: mk_alias('init'), {'b': 7}, lambda f: f(1), 'FILLED'),
      ('new_alias_unfilled', lambda: mk_alias('new'), {}, lambda f: f(1), ['b']),
      ('new_alias_filled', lambda: mk_alias('new'), {'b': 7}, lambda f: f(1, b=R), 'FILLED'),
  ]
  for name, mk, bindings, call, missing in cases:
    desc = ['odd', name]
    harness.hard_reset()
    del seen[:]
    res.case(tuple(desc), True)
    try:
      target = mk()
      if name.startswith(('init_alias', 'new_alias', 'own_new')):
        cf = gin.configurable('c10o_' + name, module='c10')(target)       # (decorating in place)
      else:
        cf = gin.external_configurable(target, name='c10o_' + name, module='c10')
      for p, v in bindings.items():
        gin.bind_parameter('c10.c10o_%s.%s' % (name, p), v)
    except Exception as e:  # pylint: disable=broad-except
      res.outcome('odd:registration_' + type(e).__name__)
      continue          # (rejecting such a binding or registration is fine)
    try:
      got, out = call(cf), 'ok'
    except Exception as e:  # pylint: disable=broad-except
      got, out = e, type(e).__name__
    res.outcome('odd:' + out)
    if any(has_marker(rec) for rec in seen):
      res.violation('marker_reached_function', '%r: bindings %r: the REQUIRED marker was handed to the function: %r (%s %r)' %
                    (desc, bindings, seen, out, got), desc)
    elif missing == 'FILLED':
      if out != 'ok' or [rec[-1] for rec in seen] != [7]:
        res.violation('call_failed', '%r: REQUIRED default with binding b=7: %s %r, constructor saw %r' % (desc, out, got, seen), desc)
      else:
        res.w('odd_calling_conventions')
    elif missing is not None and (out != 'RuntimeError' or not all(("'%s'" % n) in str(got) for n in missing)):
      res.violation('missing_required_names', '%r: expected a clean failure naming %r, got %s %r (calls seen %r)' %
                    (desc, missing, out, got, seen), desc)
    else:
      res.w('odd_calling_conventions')
  harness.hard_reset()


def history_cases(res):
  """The binding that fills a REQUIRED parameter is made late: after finalize, inside unlock_config, after the
  configurable was already called (and failed cleanly) on the locked configuration, in this or another scope."""
  seen = []

  def train(steps=R, lr=R):
    seen.append((steps, lr))
    return (steps, lr)
  for scope in ('', 's'):
    for marker_by in ('signature', 'positional', 'keyword'):
      desc = ['history', scope, marker_by]
      harness.hard_reset()
      del seen[:]
      res.case(tuple(desc), True)
      cf = gin.external_configurable(train, name='c10h_train', module='c10')
      gin.bind_parameter('c10.c10h_train.lr', 0.5)
      gin.finalize()
      import contextlib  # pylint: disable=import-outside-toplevel

      def call():
        with (gin.config_scope(scope) if scope else contextlib.nullcontext()):
          return {'signature': lambda: cf(), 'positional': lambda: cf(R), 'keyword': lambda: cf(steps=R)}[marker_by]()
      try:
        call()
        first = 'ok'
      except RuntimeError as e:
        first = 'RuntimeError' if "'steps'" in str(e) and "'lr'" not in str(e) else 'wrong message: %s' % e
      except Exception as e:  # pylint: disable=broad-except
        first = repr(e)
      with gin.unlock_config():
        gin.bind_parameter((scope, 'c10.c10h_train', 'steps'), 100)
      try:
        second = call()
      except Exception as e:  # pylint: disable=broad-except
        second = repr(e)
      res.outcome('history:%s' % first)
      if first != 'RuntimeError' or seen[:-1]:
        res.violation('missing_required_names', '%r: call on the locked configuration without a binding for steps: %s, body '
                      'saw %r' % (desc, first, seen), desc)
      elif second != (100, 0.5):
        res.violation('call_failed', '%r: after binding steps=100 inside unlock_config the call gives %r' % (desc, second), desc)
      else:
        res.w('late_binding_fills_required')
  harness.hard_reset()


def gen(tier):
  for sname, sh in SHAPES.items():
    names = sh['pos'] + sh['kwo'] + (['z'] if sh['vk'] else [])
    for m, npos, extra in combos(sh):
      for k in range(len(names) + 1):
        for bn in itertools.combinations(names, k):
          for bscope in ('', 's'):
            for active in ([], ['s']):
              if tier == 'quick' and bscope == 's' and active == [] and len(bn) > 1:
                continue
              yield sname, m, npos, extra, list(bn), bscope, active


NSH = 64


def shards(tier):
  return list(range(NSH))


def run_shard(i, tier):
  res = core.Result()
  for n, c in enumerate(gen(tier)):
    if n % NSH != i:
      continue
    run_case(*c, res)
    if n % 3001 == i:
      res.sample({'shape': c[0], 'modes': c[1], 'npos': c[2], 'extra': c[3], 'bound': c[4], 'binding_scope': c[5],
                  'active': c[6]})
  if i == 0:
    reg_cases(res)
  if i == 1:
    builtin_cases(res)
  if i == 2:
    odd_signature_cases(res)
  if i == 3:
    history_cases(res)
  harness.hard_reset()
  return res


def replay(desc):
  res = core.Result()
  if desc[0] == 'reg':
    reg_cases(res)
    return res
  if desc[0] == 'builtin':
    builtin_cases(res)
    return res
  if desc[0] == 'odd':
    odd_signature_cases(res)
    return res
  if desc[0] == 'history':
    history_cases(res)
    return res
  sname, mitems, npos, extra, bn, bscope, active = desc
  run_case(sname, dict((k, v) for k, v in mitems), npos, extra, bn, bscope, active, res)
  harness.hard_reset()
  return res
