"""C20 — clear_config returns the configuration to its pristine state.

E1: BFS over histories of parse (plain / scoped / macro / import / include / failing), bind (ok / rejected),
calls, singleton use, finalize, unlock blocks (ok / raising), constants (plain / suffix-related / defined in
interactive mode), interactive mode enter/exit.  At every reached state both clear_config() and
clear_config(clear_constants=True) are applied (on a replay) and the observation vector is compared with
the pristine one; thorough additionally compares the pristine vector and a stratified set of histories with
genuinely fresh subprocesses (validating the harness reset itself).
"""
import contextlib
import io
import json
import signal
import os
import subprocess
import sys

from vf import bfs
from vf import core
from vf import harness
from vf.harness import gin, cfg

ID = 'C20'
LEVEL = 'model_checking'
RULE = ('BFS over operation histories (alphabet in coverage.alphabet) to the depth bound, dedup on canonical real '
        'internal state; at every transition target both clear variants are applied and the observation vector '
        '(config_str, operative_config_str, lock flag, query of every key, probe calls under [] and [s], singleton '
        'reconstruction, constants by identity) is compared with the pristine vector. non-trivial = history >= 2 ops.')
ASSUMPTIONS = ['pristine vector taken from the harness hard reset (itself validated against fresh subprocesses in the '
               'thorough tier)', 'interactive mode is not part of the configuration state (not observed after clear)']
WITNESSES = ['second_life_same', 'cleared_bindings', 'cleared_operative', 'cleared_lock', 'cleared_singleton', 'cleared_imports',
             'constants_survive', 'constants_cleared', 'clear_after_failed_op', 'clear_with_interactive_constants']

MEM = {'mem_a.gin': "c20.f.a = 11\ninclude 'mem_b.gin'\n", 'mem_b.gin': 'import json\nc20.f.b = 12\n'}
COUNT = {}
KOBJ = object()


def setup():
  @gin.configurable(module='c20')
  def f(a='da', b='db'):
    return (a, b)

  @gin.configurable(module='c20')
  class Obj:
    def __init__(self):
      COUNT['n'] = COUNT.get('n', 0) + 1

  @gin.configurable(module='c20')
  def user(x=None):
    return x
  @gin.configurable(module='c20')
  def note_closed(verbosity=1):
    return verbosity

  class Fin:
    """A resource whose finalizer calls a configurable (a configurable close / report helper)."""
    def __del__(self):
      try:
        note_closed()
      except Exception:  # pylint: disable=broad-except
        pass
  gin.config.register_file_reader(lambda p: io.StringIO(MEM[p]), lambda p: p in MEM)
  global F, USER, FIN
  F, USER, FIN = f, user, Fin


@contextlib.contextmanager
def deadline(seconds):
  """Raises TimeoutError in the main thread if the block does not finish in time (a blocked lock acquire is
  interruptible by a signal handler that raises)."""
  def handler(signum, frame):
    raise TimeoutError('did not return within %ss' % seconds)
  old = signal.signal(signal.SIGALRM, handler)
  signal.setitimer(signal.ITIMER_REAL, seconds)
  try:
    yield
  finally:
    signal.setitimer(signal.ITIMER_REAL, 0)
    signal.signal(signal.SIGALRM, old)


OPS = ['parse_plain', 'parse_scoped', 'parse_macro', 'parse_import', 'parse_include', 'parse_failing', 'bind_ok',
       'bind_rejected', 'call_plain', 'call_scoped', 'use_singleton', 'finalize', 'unlock_ok', 'unlock_raising',
       'const_K', 'const_aX', 'const_bX', 'interactive_const_X', 'const_dup', 'enter_interactive',
       'exit_interactive', 'operative_str_fails', 'config_str_fails', 'const_gin_namespace',
       'singleton_with_finalizer', 'parse_static_import_gin', 'parse_dynamic', 'config_str_plain', 'const_array',
       'const_required_alias', 'lookup_short_X']
KEYS = ['c20.f.a', 'c20.f.b', 's/c20.f.a', 'c20.user.x', 'k/gin.singleton.constructor']
SING = 'c20.user.x = @k/gin.singleton()\nk/gin.singleton.constructor = @c20.Obj\n'


def bound(tier):
  return 'depth<=%d over %d operations; both clear variants at every transition' % (4,
                                                                                    len(OPS))


class Quiet(Exception):
  pass


class ArrayLike:
  """Just enough of an ndarray: `==` / `!=` are element-wise and the result has no truth value."""
  __hash__ = None

  def __init__(self, items):
    self.items = list(items)

  def __eq__(self, other):
    return ArrayLike([i == other for i in self.items])

  def __ne__(self, other):
    return ArrayLike([i != other for i in self.items])

  def __bool__(self):
    raise ValueError('The truth value of an array with more than one element is ambiguous.')

  def __repr__(self):
    return 'ArrayLike(%r)' % (self.items,)


ARR = ArrayLike([1, 2])


_ALT = [0]   # second life of a history: the same operations binding other values (same number of bindings)


def do_op(op):
  """Applies one operation to real gin; failures of the operation itself are part of the history."""
  k = _ALT[0]
  try:
    if op == 'parse_plain':
      gin.parse_config('c20.f.a = %d' % (1 + k))
    elif op == 'parse_scoped':
      gin.parse_config('s/c20.f.a = %d' % (2 + k))
    elif op == 'parse_macro':
      gin.parse_config('m = %d\nc20.f.b = %%m' % (3 + k))
    elif op == 'parse_import':
      gin.parse_config('import json\nimport os.path as osp')
    elif op == 'parse_include':
      gin.parse_config("include 'mem_a.gin'")
    elif op == 'parse_failing':
      gin.parse_config('c20.f.a = 5\nc20.f.nope = 1')
    elif op == 'bind_ok':
      gin.bind_parameter('c20.f.b', 7 + k)
    elif op == 'bind_rejected':
      gin.bind_parameter('c20.f.nope', 1)
    elif op == 'call_plain':
      F()
    elif op == 'call_scoped':
      with gin.config_scope('s'):
        F()
    elif op == 'use_singleton':
      gin.parse_config(SING)
      USER()
    elif op == 'singleton_with_finalizer':
      gin.config.singleton_value('c20fin', FIN)      # only Gin references the object: dropping it runs its finalizer
    elif op == 'finalize':
      gin.finalize()
    elif op == 'unlock_ok':
      with gin.unlock_config():
        gin.bind_parameter('c20.f.a', 8)
    elif op == 'unlock_raising':
      with gin.unlock_config():
        raise Quiet()
    elif op == 'const_K':
      gin.constant('c20.K', KOBJ)
    elif op == 'const_aX':
      gin.constant('a.X', 1)
    elif op == 'const_bX':
      gin.constant('b.X', 2)
    elif op == 'interactive_const_X':
      with gin.config.interactive_mode():
        gin.constant('X', 3)
    elif op == 'const_dup':
      gin.constant('c20.K', 4)
    elif op == 'operative_str_fails':
      gin.operative_config_str(max_line_length='80')      # the formatter raises (TypeError) if anything was recorded
    elif op == 'config_str_fails':
      gin.config_str(max_line_length='80')
    elif op == 'const_gin_namespace':
      gin.constant('gin.contrib.DTYPE', 'dt')
    elif op == 'enter_interactive':
      gin.enter_interactive_mode()
    elif op == 'exit_interactive':
      gin.exit_interactive_mode()
    elif op == 'parse_static_import_gin':
      gin.parse_config('import gin.utils\nc20.f.a = %d' % (12 + k))     # the commonest import line of legacy files
    elif op == 'parse_dynamic':
      gin.parse_config('from __gin__ import dynamic_registration\nimport json')
    elif op == 'config_str_plain':
      gin.config_str()               # fails when both import styles were recorded ("`gin` symbol is reserved")
    elif op == 'const_array':
      gin.constant('c20.ARR', ARR)   # comparisons are element-wise, the truth value of the result is ambiguous
    elif op == 'const_required_alias':
      gin.constant('c20.REQ', gin.REQUIRED)
    elif op == 'lookup_short_X':
      gin.query_parameter('X')          # a constant looked up by a shorter (partial) name; fails when none / several match
      gin.parse_config('c20.user.x = %X')
    return 'ok'
  except Exception as e:  # pylint: disable=broad-except
    return type(e).__name__


def model_constants(hist):
  """Which constants exist after the history (flat dict; interactive mode allows overlapping names)."""
  consts = {}
  interactive = False
  for op in hist:
    if op == 'enter_interactive':
      interactive = True
    elif op == 'exit_interactive':
      interactive = False
    elif op == 'const_K' and (interactive or not _matches(consts, 'c20.K')):
      consts['c20.K'] = KOBJ
    elif op == 'const_dup' and (interactive or not _matches(consts, 'c20.K')):
      consts['c20.K'] = 4
    elif op == 'const_aX' and (interactive or not _matches(consts, 'a.X')):
      consts['a.X'] = 1
    elif op == 'const_bX' and (interactive or not _matches(consts, 'b.X')):
      consts['b.X'] = 2
    elif op == 'interactive_const_X':
      consts['X'] = 3
    elif op == 'const_gin_namespace' and (interactive or not _matches(consts, 'gin.contrib.DTYPE')):
      consts['gin.contrib.DTYPE'] = 'dt'
    elif op == 'const_array' and (interactive or not _matches(consts, 'c20.ARR')):
      consts['c20.ARR'] = ARR
    elif op == 'const_required_alias' and (interactive or not _matches(consts, 'c20.REQ')):
      consts['c20.REQ'] = gin.REQUIRED
  return consts


def _matches(consts, name):
  if name in consts:
    return [name]
  return [n for n in consts if n.endswith('.' + name)]


def observe():
  """Observation vector through the public API (the state is consumed: calls are made)."""
  obs = {}
  obs['config_str'] = gin.config_str()
  obs['config_str_provenance'] = gin.config_str(show_provenance=True)
  obs['operative'] = gin.operative_config_str()
  obs['locked'] = gin.config_is_locked()
  for k in KEYS:
    try:
      obs['q:' + k] = repr(gin.query_parameter(k))
    except ValueError:
      obs['q:' + k] = 'unbound'
  obs['call'] = F()
  with gin.config_scope('s'):
    obs['call_s'] = F()
  obs['user'] = USER()
  # singleton reconstruction: a fresh configuration lifetime must construct anew
  before = COUNT.get('n', 0)
  try:
    gin.parse_config(SING)
    o1 = USER()
    o2 = USER()
    obs['singleton'] = (COUNT.get('n', 0) - before, o1 is o2, type(o1).__name__)
  except Exception as e:  # pylint: disable=broad-except
    obs['singleton'] = 'raised %r' % (e,)
  try:
    gin.bind_parameter('c20.f.a', 99)
    obs['bind_after'] = F()
  except Exception as e:  # pylint: disable=broad-except
    obs['bind_after'] = 'raised %s' % type(e).__name__
  obs['operative_after'] = gin.operative_config_str()
  obs['operative_after_provenance'] = gin.operative_config_str(show_provenance=True)
  obs['config_after_provenance'] = gin.config_str(show_provenance=True)
  return obs


_PRISTINE = {}
_HANGS = {'n': 0}


def pristine():
  if not _PRISTINE:
    harness.hard_reset()
    _PRISTINE.update(observe())
    harness.hard_reset()
  return _PRISTINE


def observe_constants(names):
  out = {}
  for n in names + ['gin.REQUIRED']:
    try:
      v = gin.query_parameter(n) if n != 'gin.REQUIRED' else cfg._CONSTANTS['gin.REQUIRED']
      out[n] = v
    except Exception as e:  # pylint: disable=broad-except
      out[n] = 'raised ' + type(e).__name__
  return out


class World:

  def __init__(self):
    harness.hard_reset()
    harness.hard_reset()    # (restoring the stores may itself run finalizers of the previous world: wipe what they left)
    COUNT.clear()
    self.hist = []
    self._canon = None
    self.dirty = False

  def ops(self):
    return OPS

  def canon(self):
    return self._canon if self._canon is not None else harness.internal_state()

  def apply(self, op, res, hist):
    try:
      with deadline(60):
        return self._apply(op, res, hist)
    except TimeoutError as e:
      harness.hard_reset()
      self._canon = ('hung', tuple(hist))
      if res is not None:
        res.violation('hang', 'history %r: %s (an earlier failed call left the configuration unusable)' % (hist, e),
                      {'history': list(hist), 'clear_constants': False})

  def _apply(self, op, res, hist):
    out = do_op(op)
    leaked = harness.held_locks()
    if leaked:
      # a lock held with no call in progress: confirm through the public API that clear_config() cannot complete
      # (confirmed at most twice per worker process, each confirmation costs the full deadline)
      if res is not None and _HANGS['n'] < 2:
        _HANGS['n'] += 1
        try:
          with deadline(3):
            gin.clear_config()
        except TimeoutError as e:
          res.violation('clear_hangs', 'history %r: clear_config() %s; locks held at quiescence: %r' %
                        (hist, e, leaked), {'history': list(hist), 'clear_constants': False})
      harness.hard_reset()
      self._canon = ('lock_leaked',)
      return
    self.hist.append(op)
    self._canon = (harness.internal_state(), tuple(sorted(cfg._CONSTANTS._selector_map)))
    if res is None:
      return
    res.outcome('%s:%s' % (op, out))
    pre_bindings = bool(cfg._CONFIG)
    pre_oper = bool(cfg._OPERATIVE_CONFIG)
    pre_locked = gin.config_is_locked()
    pre_sing = bool(cfg._SINGLETONS)
    pre_imports = bool(cfg._IMPORTS)
    consts = model_constants(self.hist)
    for variant in (False, True):
      if variant:
        harness.hard_reset()
        COUNT.clear()
        for o in self.hist:
          do_op(o)
      try:
        with deadline(5):
          gin.clear_config(clear_constants=True) if variant else gin.clear_config()
        cleared = 'ok'
      except Exception as e:  # pylint: disable=broad-except
        cleared = 'raised %r' % (e,)
      art = {'history': list(hist), 'clear_constants': variant}
      if cleared != 'ok':
        if 'TimeoutError' in cleared:
          # the lock is still held: make the state usable again for the rest of this worker
          lk = vars(cfg).get('_OPERATIVE_CONFIG_LOCK')
          try:
            lk.release()
          except Exception:  # pylint: disable=broad-except
            pass
        res.violation('clear_raises:%s' % ('consts' if variant else 'plain'),
                      'history %r: clear_config(clear_constants=%s) %s' % (hist, variant, cleared), art)
        continue
      cobs = observe_constants(sorted(consts))
      if not variant:
        exp = dict(consts)
        exp['gin.REQUIRED'] = gin.REQUIRED
        bad = [n for n in exp if not (cobs[n] is exp[n] or (not isinstance(exp[n], type(KOBJ)) and cobs[n] == exp[n]))]
        ambiguous = [n for n in bad if isinstance(cobs[n], str) and cobs[n].startswith('raised') and
                     len(_matches({k: 1 for k in consts if k != n}, n)) > 0]
        bad = [n for n in bad if n not in ambiguous]
        if bad:
          res.violation('constants_lost', 'history %r: after clear_config() constants %r read %r, expected %r' %
                        (hist, bad, {n: cobs[n] for n in bad}, {n: exp[n] for n in bad}), art)
        elif consts:
          res.w('constants_survive')
          if 'interactive_const_X' in self.hist and len(consts) > 1:
            res.w('clear_with_interactive_constants')
      else:
        left = sorted(cfg._CONSTANTS._selector_map)
        # through the API: every (partial) name of a cleared constant is as unknown as a never-defined one, and free
        still = []
        for n in sorted(consts):
          parts = n.split('.')
          for i in range(len(parts)):
            short = '.'.join(parts[i:])
            try:
              gin.query_parameter(short)
              still.append(short + ': still resolves')
            except ValueError:
              pass
            except Exception as e:  # pylint: disable=broad-except
              still.append('%s: %s instead of ValueError' % (short, type(e).__name__))
        for short in ('X', 'K', 'ARR'):
          try:
            gin.constant(short, 1)
          except Exception as e:  # pylint: disable=broad-except
            still.append('%s cannot be defined: %r' % (short, e))
        gin.clear_config(clear_constants=True)
        if left != ['gin.REQUIRED'] or cobs['gin.REQUIRED'] is not gin.REQUIRED or still:
          res.violation('constants_not_cleared', 'history %r: after clear_config(clear_constants=True) constants '
                        'left: %r %r' % (hist, left, still), art)
        elif consts:
          res.w('constants_cleared')
      got = observe()
      exp = pristine()
      diff = {k: (got[k], exp[k]) for k in exp if got[k] != exp[k]}
      if diff:
        res.violation('not_pristine:' + sorted(diff)[0].split(':')[0], 'history %r then clear_config(%s): differs from '
                      'pristine in %r' % (hist, variant, diff), art)
      else:
        if pre_bindings:
          res.w('cleared_bindings')
        if pre_oper:
          res.w('cleared_operative')
        if pre_locked:
          res.w('cleared_lock')
        if pre_sing:
          res.w('cleared_singleton')
        if pre_imports:
          res.w('cleared_imports')
        if out != 'ok':
          res.w('clear_after_failed_op')
    # ---- the clear may be issued while a scope is open in the calling thread: the block goes on in its scope, scoped
    # bindings made after the clear apply there, and leaving the block restores the caller's (root) scope
    harness.hard_reset()
    COUNT.clear()
    for o in self.hist:
      do_op(o)
    try:
      with deadline(10):
        with gin.config_scope('s'):
          gin.clear_config()
          inside = gin.current_scope()
          gin.bind_parameter('s/c20.f.a', 77)
          r_in = F()
          oper_in = gin.operative_config_str()
        after = (gin.current_scope(), F())
      seen = (inside, r_in[0], 's/c20.f.a = 77' in oper_in or 's/f.a = 77' in oper_in, after)
    except Exception as e:  # pylint: disable=broad-except
      seen = 'raised %r' % (e,)
    want = (['s'], 77, True, ([], ('da', 'db')))
    if seen != want:
      res.violation('clear_inside_open_scope', 'history %r, then clear_config() inside `with config_scope(\'s\')`: observed %r, '
                    'expected %r' % (hist, seen, want), {'history': list(hist), 'clear_constants': False})
    else:
      res.w('clear_inside_open_scope')
    # ---- two lives: history A, clear, then the same operations binding OTHER values (B) behave as B alone does
    # (anything keyed on a counter, a size or an identity that the clear rewinds would show here)
    if not any(o.startswith(('const_', 'interactive', 'enter_', 'exit_')) or o.endswith('_fails') for o in self.hist):
      def life(alt):
        _ALT[0] = alt
        try:
          outs = [do_op(o) for o in self.hist]
        finally:
          _ALT[0] = 0
        calls = []
        for sc in (None, 's', 's/t', 't/s'):
          try:
            with (gin.config_scope(sc) if sc else contextlib.nullcontext()):
              calls.append((F(), gin.get_bindings(F)))
          except Exception as e:  # pylint: disable=broad-except
            calls.append('raised %s' % type(e).__name__)
        try:
          text = gin.config_str()
        except Exception as e:  # pylint: disable=broad-except
          text = 'raised %s' % type(e).__name__      # (both import styles recorded: a failure of that call, in both lives)
        return (outs, calls, text)
      harness.hard_reset()
      COUNT.clear()
      alone = life(100)
      harness.hard_reset()
      COUNT.clear()
      life(0)
      gin.clear_config()
      after_clear = life(100)
      if after_clear != alone:
        res.violation('second_life_differs', 'history %r (values +100): run after [the same history, clear_config()] it gives '
                      '%r, run alone it gives %r' % (hist, after_clear, alone), {'history': list(hist), 'clear_constants': False})
      else:
        res.w('second_life_same')

FRESH_SCRIPT = r'''
import json, sys
sys.path.insert(0, %(verif)r)
from vf import harness
import importlib
mod = importlib.import_module('checks.c20')
mod.setup()
harness.snapshot()
hist = json.loads(sys.argv[1])
for op in hist:
    mod.do_op(op)
if sys.argv[2] != 'none':
    mod.gin.clear_config(clear_constants=(sys.argv[2] == 'True'))
obs = mod.observe()
print(json.dumps({k: repr(v) for k, v in obs.items()}))
'''


def fresh_observe(hist, variant):
  env = dict(os.environ, PYTHONHASHSEED='0', PYTHONDONTWRITEBYTECODE='1')
  p = subprocess.run([sys.executable, '-B', '-c', FRESH_SCRIPT % {'verif': os.path.dirname(os.path.dirname(__file__))},
                      json.dumps(hist), str(variant)], capture_output=True, text=True, env=env, timeout=120)
  if p.returncode != 0:
    raise RuntimeError('fresh subprocess failed: ' + p.stderr[-600:])
  return json.loads(p.stdout.strip().splitlines()[-1])


def _fresh_task(args):
  hist, variant = args
  res = core.Result()
  try:
    got = fresh_observe(hist, variant)
    exp = {k: repr(v) for k, v in pristine().items()}
    res.case(('fresh', tuple(hist), variant), True)
    res.outcome('fresh')
    diff = {k: (got[k], exp[k]) for k in exp if got[k] != exp[k]}
    if variant == 'none' and not hist:
      if diff:
        res.extra['harness_error'] = 'harness hard reset differs from a fresh process: %r' % (diff,)
    elif diff:
      res.violation('fresh_not_pristine', 'fresh process: history %r then clear(%s) differs from a fresh process '
                    'without history in %r' % (hist, variant, diff), {'history': hist, 'clear_constants': variant})
  except Exception:  # pylint: disable=broad-except
    import traceback
    res.extra['harness_error'] = traceback.format_exc()
  return res


def run(ctx):
  res = core.Result()
  res.extra['alphabet'] = OPS
  pristine()
  mod = __import__('checks.c20', fromlist=['x'])
  bfs.run_bfs(ctx, mod, 4, res, max_states=100000 if ctx.quick else 1000000)
  # fresh-subprocess validation of the reset (always the empty history; thorough: a stratified subset)
  tasks = [([], 'none')]
  if not ctx.quick:
    import itertools
    pairs = list(itertools.product(OPS, OPS))
    tasks += [([a, b], v) for i, (a, b) in enumerate(pairs) if i % 7 == 0 for v in (False, True)]
  else:
    tasks += [([a], False) for a in OPS[::3]]
  for r in ctx.pmap(_fresh_task, tasks):
    res.merge(r)
  res.extra['fresh_subprocess_runs'] = len(tasks)
  return res


def replay(obj):
  mod = __import__('checks.c20', fromlist=['x'])
  return bfs.replay_history(mod, obj['history'])
