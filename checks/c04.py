"""C04 — references deliver the configurable or a fresh result, in the right scope.

E3 + short call sequences: value shapes (references nested in list / tuple / dict to depth 3, sibling literals and
sibling references) x reference scope x ambient scope x caller override (none / positional / keyword) x call
sequences in which the consumer mutates everything it received.  Oracle per call: invocation count of the
referenced configurable, scope recorded inside it, structure received, and invariance of query_parameter /
config_str / later calls under mutation.
"""
import contextlib
import copy
import itertools

from vf import core
from vf import harness
from vf.harness import gin, cfg

ID = 'C04'
LEVEL = 'exploration'
RULE = ('value shape x reference scope x call sequence (each call: caller override, ambient scope, mutation of the '
        'received value) enumerated exhaustively up to the sequence length bound; one evaluation = one real call '
        'compared with the model (fresh evaluation count, scope, structure) plus config invariance. non-trivial = the '
        'shape holds a reference and the sequence has a mutation or an override.')
ASSUMPTIONS = ['referenced configurable g returns a fresh list tagged with a global call counter',
               'the consumer returns what it received; the harness mutates it afterwards (same effect as in-body)']
WITNESSES = ['same_named_configurables_same_scope', 'rebound_scope_exact', 'fresh_per_call', 'not_called_when_positional', 'not_called_when_keyword', 'scoped_ref_exact_scope',
             'unscoped_ref_ambient_scope', 'unevaluated_delivers_registry_version', 'mutation_invisible_later',
             'nested_depth3', 'two_refs_two_calls', 'references_as_dict_keys']

CALLS = []


class M:
  """Marker for a reference inside a shape template."""

  def __init__(self, evaluate, scope=None):
    self.evaluate, self.scope = evaluate, scope

  def __repr__(self):
    return 'M(%s,%r)' % (self.evaluate, self.scope)


G, F = M(True), M(False)


def setup():
  @gin.configurable(module='c04')
  def g(tag='default'):
    sc = gin.current_scope()
    CALLS.append(list(sc))
    sc.append('MUTATED_BY_CALLEE')      # what current_scope() hands out is the caller's to scribble on
    del sc[:1]
    return ['g', len(CALLS), tag]

  @gin.configurable('g', module='c04other')
  def g_other(tag='default'):
    return ['g_other', '/'.join(gin.current_scope()), tag]

  @gin.configurable(module='c04')
  def gk(tag='default'):
    """Like g, but returns something hashable (usable as a dict key or in a set-like position)."""
    sc = gin.current_scope()
    CALLS.append(list(sc))
    name = '/'.join(sc)
    sc.append('MUTATED_BY_CALLEE')
    return ('gk', name, tag)

  @gin.configurable(module='c04')
  def consumer(p=None, q=None):
    return p

  @gin.configurable(module='c04')
  def boom(kind=0):
    raise [KeyboardInterrupt, SystemExit, GeneratorExit][kind % 3]('boom')

  @gin.configurable(module='c04')
  def aborter(v=None):
    return v
  global ABORTER
  ABORTER = aborter

  @gin.configurable(module='c04')
  def strict(p=gin.REQUIRED, q=None):
    return p

  @gin.configurable(module='c04')
  def kwonly_consumer(*, p=None, q=None):
    return p
  global CONSUMER, GFN, STRICT, KWONLY
  CONSUMER, GFN, STRICT, KWONLY = consumer, g, strict, kwonly_consumer


SHAPES = {
    'bare_eval': G,
    'bare_uneval': F,
    'list': [1, G],
    'tuple': (G, 2),
    'dict': {'k': G},
    'deep': [{'k': [G]}],
    'two': [G, G],
    'mixed': {'a': G, 'b': (F,)},
    'lit_only': [1, [2], {'z': 3}],
    'deep3': ([{'k': (G, [F])}], 'lit'),
    'two_scopes': [M(True, 's'), G, M(True, 'x/y')],
    'tuple_of_mutables': ([1, [2]], {'z': [3]}),
    'tuple_mutables_ref': ([1, 2], {'k': 'v'}, (G,)),
}
REF_SCOPES = [None, 's', 's/t']
AMBIENT = [[], ['a'], ['a', 'b'],
           # ambient scopes that END with (or contain) the scope a reference is written with: still not that scope
           ['x', 's'], ['x', 's', 't'], ['s', 't', 's']]
N_AMBIENT = 3      # the ones used in the sequence product
OVERRIDES = ['none', 'pos', 'kw']
MUTATIONS = ['none', 'mutate']


def bound(tier):
  return '%d shapes x %d reference scopes x call sequences of length<=%d over (override x ambient x mutation)' % (
      len(SHAPES), len(REF_SCOPES), 3 if tier == 'quick' else 3)


def render(t, rscope):
  if isinstance(t, M):
    sc = t.scope if t.scope is not None else rscope
    return '@' + (sc + '/' if sc else '') + 'c04.g' + ('()' if t.evaluate else '')
  if isinstance(t, list):
    return '[' + ', '.join(render(x, rscope) for x in t) + ']'
  if isinstance(t, tuple):
    return '(' + ', '.join(render(x, rscope) for x in t) + (',' if len(t) == 1 else '') + ')'
  if isinstance(t, dict):
    return '{' + ', '.join('%r: %s' % (k, render(v, rscope)) for k, v in t.items()) + '}'
  return repr(t)


def markers(t):
  if isinstance(t, M):
    yield t
  elif isinstance(t, (list, tuple)):
    for x in t:
      yield from markers(x)
  elif isinstance(t, dict):
    for x in t.values():
      yield from markers(x)


def depth(t):
  if isinstance(t, (list, tuple)):
    return 1 + max([depth(x) for x in t] or [0])
  if isinstance(t, dict):
    return 1 + max([depth(x) for x in t.values()] or [0])
  return 0


def compare(t, got, rscope, ambient, base_count, seen_results, problems, path='p'):
  """Checks structure of `got` against template t.  Returns nothing; appends to problems."""
  if isinstance(t, M):
    sc = t.scope if t.scope is not None else rscope
    want_scope = sc.split('/') if sc else list(ambient)
    if t.evaluate:
      if not (isinstance(got, list) and len(got) == 3 and got[0] == 'g'):
        problems.append('%s: expected a result of g, got %r' % (path, got))
        return
      n = got[1]
      if not base_count < n <= len(CALLS):
        problems.append('%s: result %r was not produced during this call (calls before=%d, now=%d)' %
                        (path, got, base_count, len(CALLS)))
        return
      if id(got) in seen_results or n in seen_results:
        problems.append('%s: result %r delivered twice' % (path, got))
      seen_results.add(n)
      if CALLS[n - 1] != want_scope:
        problems.append('%s: g ran under scope %r, expected %r' % (path, CALLS[n - 1], want_scope))
      if got[2] != 'T':
        problems.append('%s: g did not receive its own binding (tag=%r)' % (path, got[2]))
    else:
      if not callable(got):
        problems.append('%s: expected the configurable itself, got %r' % (path, got))
        return
      before = len(CALLS)
      with gin.config_scope(['elsewhere']):
        r = got()
      if len(CALLS) != before + 1 or r[2] != 'T':
        problems.append('%s: delivered configurable is not the registry version (result %r)' % (path, r))
      else:
        exp = sc.split('/') if sc else ['elsewhere']
        if CALLS[-1] != exp:
          problems.append('%s: delivered configurable ran under %r, expected %r' % (path, CALLS[-1], exp))
      CALLS.pop()
    return
  if type(t) is not type(got):
    problems.append('%s: expected %s, got %r' % (path, type(t).__name__, got))
    return
  if isinstance(t, (list, tuple)):
    if len(t) != len(got):
      problems.append('%s: length %d, expected %d: %r' % (path, len(got), len(t), got))
      return
    for i, (a, b) in enumerate(zip(t, got)):
      compare(a, b, rscope, ambient, base_count, seen_results, problems, '%s[%d]' % (path, i))
  elif isinstance(t, dict):
    if list(t) != list(got):
      problems.append('%s: keys %r, expected %r' % (path, list(got), list(t)))
      return
    for k in t:
      compare(t[k], got[k], rscope, ambient, base_count, seen_results, problems, '%s[%r]' % (path, k))
  elif t != got:
    problems.append('%s: %r, expected %r' % (path, got, t))


def mutate(v):
  if isinstance(v, list):
    for x in v:
      mutate(x)
    v.append('MUT')
    if len(v) > 1:
      del v[0]
  elif isinstance(v, dict):
    for x in list(v.values()):
      mutate(x)
    v['MUT'] = 'x'
    del v[next(iter(v))]
  elif isinstance(v, tuple):
    for x in v:
      mutate(x)


_ABORTS = [0]


def run_sequence(sname, rscope, seq, res, locked=False):
  desc = [sname, rscope, [list(c) for c in seq]] + (['locked'] if locked else [])
  t = SHAPES[sname]
  text = 'c04.consumer.p = %s\nc04.g.tag = \'T\'\nc04.consumer.q = [0, {\'q\': []}]' % render(t, rscope)
  harness.hard_reset()
  del CALLS[:]
  try:
    gin.parse_config(text)
  except Exception as e:  # pylint: disable=broad-except
    res.extra['harness_error'] = 'parse failed for %r: %r' % (text, e)
    return
  # History: a scoped reference whose callee exits by a non-Exception (Ctrl-C, SystemExit, GeneratorExit) was evaluated
  # and the program carried on; and (locked runs) the configuration was finalized before the calls.
  n = core.h64(repr(desc)) % 6      # which exception / which nesting: a function of the case, so replays agree
  try:
    gin.parse_config('c04.boom.kind = %d\nc04.aborter.v = %s' % (n, ['@z/c04.boom()', '[1, {2: @y/z/c04.boom()}]'][n % 2]))
    ABORTER()
  except BaseException:  # pylint: disable=broad-except
    pass
  if locked:
    gin.finalize()
  cfg_before = gin.config_str()
  q_before = repr(gin.query_parameter('c04.consumer.p'))
  nmark = list(markers(t))
  n_eval = sum(1 for m in nmark if m.evaluate)
  nontrivial = bool(nmark) and any(c[0] != 'none' or c[2] != 'none' for c in seq)
  mutated_before = False
  for ci, (override, ai, mut) in enumerate(seq):
    ambient = AMBIENT[ai]
    res.case((sname, rscope, tuple(map(tuple, seq[:ci + 1]))), nontrivial)
    base = len(CALLS)
    sentinel = ['caller']
    try:
      # (no scope block at all when the ambient scope is the root: an explicit block would mask a stale scope stack)
      with (gin.config_scope(list(ambient)) if ambient else contextlib.nullcontext()):
        if override == 'none':
          got = CONSUMER()
        elif override == 'pos':
          got = CONSUMER(sentinel)
        else:
          got = CONSUMER(p=sentinel)
      out = 'ok'
    except Exception as e:  # pylint: disable=broad-except
      got, out = e, type(e).__name__
    res.outcome('%s:%s' % (override, out))
    if out != 'ok':
      res.violation('call_raised', 'sequence %r: call %d raised %r' % (desc, ci, got), desc)
      return
    ncalls = len(CALLS) - base
    if override == 'none':
      if ncalls != n_eval:
        res.violation('eval_count', 'sequence %r: call %d evaluated g %d times, the value holds %d evaluated '
                      'references' % (desc, ci, ncalls, n_eval), desc)
      problems = []
      compare(t, got, rscope, ambient, base, set(), problems)
      if problems:
        sig = 'delivered_value'
        if any('ran under' in p for p in problems):
          sig = 'reference_scope'
        elif mutated_before:
          sig = 'mutation_visible_later'
        res.violation(sig, 'sequence %r: call %d: %s' % (desc, ci, '; '.join(problems[:4])), desc)
      else:
        if n_eval:
          res.w('fresh_per_call')
          if ci > 0:
            res.w('two_refs_two_calls' if n_eval > 1 else 'fresh_per_call')
        if any(m.evaluate and (m.scope or rscope) for m in nmark):
          res.w('scoped_ref_exact_scope')
        if any(m.evaluate and not (m.scope or rscope) for m in nmark) and ambient:
          res.w('unscoped_ref_ambient_scope')
        if any(not m.evaluate for m in nmark):
          res.w('unevaluated_delivers_registry_version')
        if mutated_before and nmark:
          res.w('mutation_invisible_later')
        if depth(t) >= 3:
          res.w('nested_depth3')
    else:
      if got is not sentinel:
        res.violation('caller_value_lost', 'sequence %r: call %d did not deliver the caller value' % (desc, ci), desc)
      if ncalls != 0:
        res.violation('evaluated_despite_caller_%s' % ('positional' if override == 'pos' else 'keyword'),
                      'sequence %r: call %d: the caller supplied p (%s) but g was still called %d time(s)' %
                      (desc, ci, override, ncalls), desc)
      elif n_eval:
        res.w('not_called_when_positional' if override == 'pos' else 'not_called_when_keyword')
    if mut == 'mutate' and override == 'none':
      mutate(got)
      mutated_before = True
      # q received alongside is mutated through get_bindings too
      gb = gin.get_bindings(CONSUMER)
      del CALLS[base + ncalls:]
      mutate(gb.get('q'))
    # invariance of what queries and config strings see
    if gin.config_str() != cfg_before or repr(gin.query_parameter('c04.consumer.p')) != q_before:
      res.violation('config_changed_by_consumer', 'sequence %r: after call %d config_str/query_parameter changed:\n%s'
                    % (desc, ci, gin.config_str()), desc)
      return
    if repr(gin.query_parameter('c04.consumer.q')) != "[0, {'q': []}]":
      res.violation('config_changed_by_consumer', 'sequence %r: stored q mutated to %r' %
                    (desc, gin.query_parameter('c04.consumer.q')), desc)
      return


DICTKEY_CASES = {
    # text of the value -> expected delivered dict given the ambient scope string
    'two_scopes': ("{@s/c04.gk(): 1, @x/y/c04.gk(): 2}", lambda amb: {('gk', 's', 'KT'): 1, ('gk', 'x/y', 'KT'): 2}, 2),
    'three_with_ambient': ("{@s/c04.gk(): 1, @c04.gk(): 2, @t/c04.gk(): 3}",
                           lambda amb: {('gk', 's', 'KT'): 1, ('gk', amb, 'KT'): 2, ('gk', 't', 'KT'): 3}, 3),
    'macro_keys': ("{%ka: 1, %kb: 2, %a/b: 3}", lambda amb: {'A': 1, 'B': 2, 'AB': 3}, 0),
    'key_and_value': ("{@s/c04.gk(): @t/c04.gk(), 'lit': (@s/c04.gk(),)}",
                      lambda amb: {('gk', 's', 'KT'): ('gk', 't', 'KT'), 'lit': (('gk', 's', 'KT'),)}, 3),
    'nested_key_dicts': ("[{@s/c04.gk(): 1}, {@t/c04.gk(): 1}]",
                         lambda amb: [{('gk', 's', 'KT'): 1}, {('gk', 't', 'KT'): 1}], 2),
    'tuple_key': ("{(@s/c04.gk(), @t/c04.gk()): 1}", lambda amb: {(('gk', 's', 'KT'), ('gk', 't', 'KT')): 1}, 2),
    'key_in_tuple': ("({@s/c04.gk(): 1},)", lambda amb: ({('gk', 's', 'KT'): 1},), 1),
    'key_in_tuple_in_list': ("[({@c04.gk(): [1]}, 2)]", lambda amb: [({('gk', amb, 'KT'): [1]}, 2)], 1),
}


def run_dictkey(name, ai, res):
  desc = ['dictkey', name, ai]
  text, exp_fn, ncalls = DICTKEY_CASES[name]
  harness.hard_reset()
  del CALLS[:]
  gin.parse_config("ka = 'A'\nkb = 'B'\na/b = 'AB'\nc04.gk.tag = 'KT'\nc04.consumer.p = " + text)
  ambient = AMBIENT[ai]
  res.case(('dictkey', name, ai), True)
  cs = gin.config_str()
  for rnd in range(2):
    base = len(CALLS)
    try:
      with gin.config_scope(list(ambient) if ambient else None):
        got = CONSUMER()
    except Exception as e:  # pylint: disable=broad-except
      res.violation('call_raised', '%r: %r' % (desc, e), desc)
      return
    want = exp_fn('/'.join(ambient))
    if got != want or len(CALLS) - base != ncalls:
      res.violation('reference_as_dict_key', '%r: value %s delivered %r (%d evaluations), expected %r (%d evaluations)' %
                    (desc, text, got, len(CALLS) - base, want, ncalls), desc)
      return
  for piece in [t for t in text.replace('{', ' ').replace('}', ' ').replace(',', ' ').replace(':', ' ').replace('(', ' ')
                .replace(')', ' ').replace('[', ' ').replace(']', ' ').split() if t[0] in '@%']:
    if piece.rstrip('()').replace('c04.', '') not in cs.replace('c04.', ''):
      res.violation('config_str_lost_reference', '%r: config_str no longer mentions %s:\n%s' % (desc, piece, cs), desc)
      return
  res.w('references_as_dict_keys')
  res.outcome('dictkey')


REBIND_SHAPES = ['bare_eval', 'bare_uneval', 'list', 'deep', 'mixed']
REBIND_SCOPES = [None, 's', 't', 's/t']
REBIND_HOW = ['second_parse', 'same_text', 'bind_parameter', 'second_parse_after_call']


def run_rebind(sname, pair, how, res):
  """The parameter is bound to a value whose references carry scope A and then re-bound to the same value written
  with scope B: the delivered references run under exactly B."""
  desc = ['rebind', sname, list(pair), how]
  a, b = pair
  t = SHAPES[sname]
  harness.hard_reset()
  del CALLS[:]
  res.case(('rebind', sname, pair, how), True)
  first = "c04.g.tag = 'T'\nc04.consumer.p = %s\n" % render(t, a)
  second = 'c04.consumer.p = %s\n' % render(t, b)
  try:
    if how == 'same_text':
      gin.parse_config(first + second)
    elif how == 'bind_parameter':
      gin.parse_config(first + 'c04.consumer.q = %s\n' % render(t, b))
      gin.bind_parameter('c04.consumer.p', gin.query_parameter('c04.consumer.q'))
    else:
      gin.parse_config(first)
      if how == 'second_parse_after_call':
        CONSUMER()
      gin.parse_config(second)
    base = len(CALLS)
    got = CONSUMER()
  except Exception as e:  # pylint: disable=broad-except
    res.violation('call_raised', '%r: %r' % (desc, e), desc)
    return
  problems = []
  compare(t, got, b, [], base, set(), problems)
  shown = gin.config_str()
  want_text = render(t, b)
  if problems:
    res.violation('reference_scope' if any('ran under' in p for p in problems) else 'delivered_value',
                  '%r: after re-binding %s -> %s: %s' % (desc, render(t, a), want_text, '; '.join(problems[:3])), desc)
  elif want_text.replace(' ', '').replace('c04.', '') not in shown.replace(' ', '').replace('\n', '').replace('\\', '').replace('c04.', ''):
    # (module prefixes are not compared: config_str prints references with their minimal selectors)
    res.violation('config_str_lost_reference', '%r: config_str does not show the re-bound value %s:\n%s' %
                  (desc, want_text, shown), desc)
  else:
    res.w('rebound_scope_exact')
  res.outcome('rebind')


def run_same_name(order, res):
  """Two configurables with the same name in different modules, referenced under the very same scope."""
  desc = ['same_name', order]
  harness.hard_reset()
  del CALLS[:]
  res.case(('same_name', order), True)
  refs = ['@s/c04.g()', '@s/c04other.g()', '@s/c04.g', '@s/c04other.g', '@s/t/c04other.g()', '@s/t/c04.g()']
  if order:
    refs = refs[::-1]
  try:
    gin.parse_config("c04.g.tag = 'T'\nc04other.g.tag = 'O'\nc04.consumer.p = [%s]" % ', '.join(refs))
    got = CONSUMER()
    seen = []
    for ref, v in zip(refs, got):
      r = v() if callable(v) else v
      seen.append((ref, r[0], r[2]))
  except Exception as e:  # pylint: disable=broad-except
    res.violation('call_raised', '%r: %r' % (desc, e), desc)
    return
  want = [(ref, 'g_other' if 'other' in ref else 'g', 'O' if 'other' in ref else 'T') for ref in refs]
  if seen != want:
    res.violation('delivered_value', '%r: same-named configurables under one scope: delivered %r, expected %r' %
                  (desc, seen, want), desc)
  else:
    res.w('same_named_configurables_same_scope')
  res.outcome('same_name')


class EqAll:
  """A caller value that compares equal to everything (unittest.mock.ANY, matcher / wildcard objects)."""
  __hash__ = None

  def __eq__(self, other):
    return True

  def __ne__(self, other):
    return False


class EqAmbiguous:
  """A caller value whose comparisons have no truth value (array-like)."""
  __hash__ = None

  def __eq__(self, other):
    return self

  def __bool__(self):
    raise ValueError('The truth value of an array with more than one element is ambiguous')


_DYN = []


def run_dyn_rereg(evaluate, ambient, res):
  """Dynamic registration: a scoped reference to a class keeps its scope when the class is registered again (which
  configuring one of its methods does)."""
  import os, sys, tempfile, atexit, shutil  # pylint: disable=import-outside-toplevel,multiple-imports
  if not _DYN:
    d = tempfile.mkdtemp(prefix='c04_')
    with open(os.path.join(d, 'c04dyn.py'), 'w') as fh:
      fh.write("class Worker:\n  def __init__(self, tag='dflt'):\n    self.tag = tag\n  def run(self, speed=None):\n    return speed\n\n"
               "def consume(p=None):\n  return p\n")
    sys.path.insert(0, d)
    atexit.register(lambda: shutil.rmtree(d, ignore_errors=True))
    _DYN.append(d)
  desc = ['dyn_rereg', evaluate, ambient]
  harness.hard_reset()
  res.case(tuple(desc), True)
  head = 'from __gin__ import dynamic_registration\nimport c04dyn as m\n'
  import contextlib  # pylint: disable=import-outside-toplevel

  def observe():
    import c04dyn  # pylint: disable=import-outside-toplevel
    with (gin.config_scope(ambient) if ambient else contextlib.nullcontext()):
      v = gin.get_configurable(c04dyn.consume)()
      inst = v if evaluate else v()
    return inst.tag, inst.run()
  try:
    gin.parse_config(head + "m.consume.p = @blue/m.Worker%s\nblue/m.Worker.tag = 'blue'\nm.Worker.tag = 'unscoped'\n"
                     "red/m.Worker.tag = 'red'\n" % ('()' if evaluate else ''))
    first = observe()
    gin.parse_config(head + "m.Worker.run.speed = 3\n")
    second = observe()
  except Exception as e:  # pylint: disable=broad-except
    res.violation('call_raised', '%r: %r' % (desc, e), desc)
    return
  if first != ('blue', None) or second != ('blue', 3):
    res.violation('reference_scope', '%r: the reference @blue/m.Worker ran with (tag, speed) = %r before and %r after '
                  'a method of the class was configured; expected (blue, None) and (blue, 3)' % (desc, first, second), desc)
  else:
    res.w('scoped_reference_survives_reregistration')
  res.outcome('dyn_rereg')


def run_partial_consumer(bound_param, res):
  """A consumer that is a functools.partial (its first parameter pre-filled): the caller's positional argument is `p`;
  a reference bound to `p` is then not called, one bound to `q` is."""
  import functools  # pylint: disable=import-outside-toplevel
  desc = ['partial_consumer', bound_param]
  harness.hard_reset()
  del CALLS[:]
  res.case(tuple(desc), True)

  def base(fixed, p='dp', q='dq'):
    return (fixed, p, q)
  fn = gin.external_configurable(functools.partial(base, 'FX'), name='partial_consumer', module='c04')
  try:
    gin.parse_config("c04.g.tag = 'T'\nc04.partial_consumer.%s = @c04.g()" % bound_param)
  except Exception as e:  # pylint: disable=broad-except
    res.violation('call_raised', '%r: binding a free parameter of the partial raised %r' % (desc, e), desc)
    return
  sentinel = ['caller']
  outs = []
  for call, want_calls, want in ((lambda: fn(sentinel), 0 if bound_param == 'p' else 1, None),
                                 (lambda: fn(), 1, None), (lambda: fn(q=sentinel), 0 if bound_param == 'q' else 1, None)):
    before = len(CALLS)
    try:
      got = call()
    except Exception as e:  # pylint: disable=broad-except
      res.violation('call_raised', '%r: %r' % (desc, e), desc)
      return
    outs.append((len(CALLS) - before, want_calls, got))
  if any(n != w for n, w, _ in outs):
    res.violation('evaluated_despite_caller_positional' if outs[0][0] > outs[0][1] else 'eval_count',
                  '%r: calls fn(x), fn(), fn(q=x) evaluated the reference bound to %s (%s) times (wanted, result): %r' %
                  (desc, bound_param, 'actual', outs), desc)
  elif outs[0][2][1] is not sentinel or outs[0][2][0] != 'FX':
    res.violation('caller_value_lost', '%r: fn(x) received %r' % (desc, outs[0][2]), desc)
  else:
    res.w('partial_consumer')
  res.outcome('partial_consumer')


def run_override_variants(cname, res):
  """Caller overrides on consumers with other signature shapes (signature-level REQUIRED, keyword-only), with caller
  values of unusual equality."""
  fn = {'strict': STRICT, 'kwonly': KWONLY, 'plain': CONSUMER}[cname]
  sel = 'c04.' + fn.__name__
  for text, n_eval in (('@c04.g()', 1), ("{'k': [(@s/c04.g(), 1)], 'j': @c04.g()}", 2), ('[%mg, %mg]', 2)):
    for how in ('none', 'kw', 'kw_none', 'pos', 'kw_eqall', 'pos_eqall', 'kw_ambiguous', 'pos_ambiguous'):
      if how.startswith('pos') and cname == 'kwonly':
        continue
      desc = ['override', cname, text, how]
      harness.hard_reset()
      del CALLS[:]
      gin.parse_config("mg = @c04.g()\nc04.g.tag = 'T'\n%s.p = %s" % (sel, text))
      res.case(tuple(desc), True)
      sentinel = EqAll() if how.endswith('eqall') else EqAmbiguous() if how.endswith('ambiguous') else ['caller']
      try:
        got = {'none': lambda: fn(), 'kw': lambda: fn(p=sentinel), 'kw_none': lambda: fn(p=None),
               'pos': lambda: fn(sentinel)}[how.split('_')[0] if how not in ('none', 'kw_none') else how]()
      except Exception as e:  # pylint: disable=broad-except
        res.violation('call_raised', '%r: %r' % (desc, e), desc)
        continue
      want = n_eval if how == 'none' else 0
      if len(CALLS) != want:
        res.violation('evaluated_despite_caller_%s' % ('positional' if how.startswith('pos') else 'keyword') if how != 'none'
                      else 'eval_count', '%r: g evaluated %d time(s), expected %d' % (desc, len(CALLS), want), desc)
      elif how not in ('none', 'kw_none') and got is not sentinel or how == 'kw_none' and got is not None:
        res.violation('caller_value_lost', '%r: received %r' % (desc, got), desc)
      elif how != 'none':
        res.w('not_called_when_keyword' if how.startswith('kw') else 'not_called_when_positional')
      res.outcome('override:' + how)


def gen(tier):
  yield 'SAMENAME', 0, None
  yield 'SAMENAME', 1, None
  yield 'OVERRIDE', 'strict', None
  yield 'OVERRIDE', 'kwonly', None
  yield 'OVERRIDE', 'plain', None
  yield 'PARTIAL', 'p', None
  yield 'PARTIAL', 'q', None
  for ev in (True, False):
    for amb in (None, 'red'):
      yield 'DYNREREG', ev, amb
  for name in DICTKEY_CASES:
    for ai in range(len(AMBIENT)):
      yield 'DICTKEY', name, ai
  for sname in REBIND_SHAPES:
    for pair in itertools.permutations(REBIND_SCOPES, 2):
      for how in REBIND_HOW:
        yield 'REBIND', (sname, pair), how
  call_menu2 = list(itertools.product(OVERRIDES, range(N_AMBIENT), MUTATIONS))
  for sname in SHAPES:
    for rscope in REF_SCOPES[:2]:
      for k in (1, 2):
        for seq in itertools.product(call_menu2, repeat=k):
          yield 'LOCKED', (sname, rscope), seq
  n = 3
  call_menu = list(itertools.product(OVERRIDES, range(N_AMBIENT), MUTATIONS))
  for sname in SHAPES:
    for rscope in REF_SCOPES[1:]:
      for ai in range(N_AMBIENT, len(AMBIENT)):
        yield sname, rscope, (('none', ai, 'none'),)
        yield sname, rscope, (('none', ai, 'mutate'), ('none', 0, 'none'))
  for sname in SHAPES:
    for rscope in REF_SCOPES:
      for k in range(1, n + 1):
        menu = call_menu if k < 3 else [c for c in call_menu if c[1] != 1]
        for seq in itertools.product(menu, repeat=k):
          yield sname, rscope, seq


NSH = 64


def shards(tier):
  return list(range(NSH))


def run_shard(i, tier):
  res = core.Result()
  for n, (sname, rscope, seq) in enumerate(gen(tier)):
    if n % NSH != i:
      continue
    if sname == 'DICTKEY':
      run_dictkey(rscope, seq, res)
      continue
    if sname == 'OVERRIDE':
      run_override_variants(rscope, res)
      continue
    if sname == 'SAMENAME':
      run_same_name(rscope, res)
      continue
    if sname == 'PARTIAL':
      run_partial_consumer(rscope, res)
      continue
    if sname == 'DYNREREG':
      run_dyn_rereg(rscope, seq, res)
      continue
    if sname == 'REBIND':
      run_rebind(rscope[0], rscope[1], seq, res)
      continue
    if sname == 'LOCKED':
      run_sequence(rscope[0], rscope[1], seq, res, locked=True)
      continue
    run_sequence(sname, rscope, seq, res)
    if n % 4001 == i:
      res.sample({'shape': render(SHAPES[sname], rscope), 'calls': [list(c) for c in seq]})
    if 'harness_error' in res.extra:
      break
  harness.hard_reset()
  return res


def replay(desc):
  res = core.Result()
  if desc[0] == 'override':
    run_override_variants(desc[1], res)
    harness.hard_reset()
    return res
  if desc[0] == 'same_name':
    run_same_name(desc[1], res)
    harness.hard_reset()
    return res
  if desc[0] == 'partial_consumer':
    run_partial_consumer(desc[1], res)
    harness.hard_reset()
    return res
  if desc[0] == 'dyn_rereg':
    run_dyn_rereg(desc[1], desc[2], res)
    harness.hard_reset()
    return res
  if desc[0] == 'rebind':
    run_rebind(desc[1], tuple(desc[2]), desc[3], res)
    harness.hard_reset()
    return res
  if desc[0] == 'dictkey':
    run_dictkey(desc[1], desc[2], res)
    harness.hard_reset()
    return res
  run_sequence(desc[0], desc[1], [tuple(c) for c in desc[2]], res, locked=len(desc) > 3 and desc[3] == 'locked')
  harness.hard_reset()
  return res
