"""C19 — dynamic registration resolves names through the file's own imports.

E3 over a generated package tree (function, class, nested class, method, a same-named function in a sibling
module): every combination of import form / alias for the two modules (incl. colliding bound names) x include
structure x target kinds x order of first use; a negative menu.  Oracle: the exact Python object is registered
and configured; spellings alias one configurable; stored @Class references survive method configuration;
config_str re-parses on a reset gin to the same bindings on the same objects.
"""
import itertools
import os
import shutil
import sys
import tempfile

from vf import core
from vf import harness
from vf.harness import gin, cfg

ID = 'C19'
LEVEL = 'exploration'
RULE = ('import form of module A x import form of module B (incl. colliding aliases) x include structure {single file, '
        'A includes B, B includes A} x target set order; one evaluation = parse + object-identity checks + config_str '
        're-parse on a reset gin; negative menu (foreign imports, reserved name, late/aliased enabling, unknown feature, '
        'missing attribute). non-trivial = two modules or an alias involved.')
ASSUMPTIONS = ['generated package c19pkg on sys.path (created per run, removed at exit)', 'in-memory reader for included files']
WITNESSES = ['spellings_one_configurable', 'library_registered_nested_class', 'nested_class_method_configured', 'bound_name_equal_to_package', 'wrapper_and_wrapped_distinct', 'exact_object_configured', 'spellings_alias_same_configurable', 'method_configured', 'nested_class_configured',
             'reference_survives_method_registration', 'foreign_import_rejected', 'reserved_gin_rejected',
             'late_enabling_rejected', 'aliased_enabling_rejected', 'unknown_feature_rejected', 'config_str_reparses',
             'colliding_names_realiased', 'missing_attribute_rejected']

MEM = {}
SCRATCH = [None]


def setup():
  import io
  d = tempfile.mkdtemp(prefix='c19_')
  SCRATCH[0] = d
  os.makedirs(os.path.join(d, 'c19pkg', 'sub'))
  open(os.path.join(d, 'c19pkg', '__init__.py'), 'w').close()
  open(os.path.join(d, 'c19pkg', 'sub', '__init__.py'), 'w').close()
  with open(os.path.join(d, 'c19pkg', 'sub', 'mod.py'), 'w') as fh:
    fh.write('''
def fn(a=None, b=None):
  return ('mod.fn', a, b)


def consumer(ref=None):
  return ref


class Cls:
  def __init__(self, x=None):
    self.x = x

  def meth(self, y=None):
    return ('meth', y)

  class Nested:
    def __init__(self, z=None):
      self.z = z
''')
  with open(os.path.join(d, 'c19pkg', 'other.py'), 'w') as fh:
    fh.write('''
def fn(a=None):
  return ('other.fn', a)
''')
  os.makedirs(os.path.join(d, 'c19pkg', 'third'))
  open(os.path.join(d, 'c19pkg', 'third', '__init__.py'), 'w').close()
  for sub in ('alpha', 'beta'):
    os.makedirs(os.path.join(d, 'c19pkg', sub), exist_ok=True)
    open(os.path.join(d, 'c19pkg', sub, '__init__.py'), 'w').close()
    with open(os.path.join(d, 'c19pkg', sub, 'tools.py'), 'w') as fh:
      fh.write("def make(size=None):\n  return ('%s.make', size)\n" % sub)
    os.makedirs(os.path.join(d, 'c19pkg', sub, 'deep'), exist_ok=True)
    open(os.path.join(d, 'c19pkg', sub, 'deep', '__init__.py'), 'w').close()
    with open(os.path.join(d, 'c19pkg', sub, 'deep', 'tools.py'), 'w') as fh:
      fh.write("def make(size=None):\n  return ('%s.deep.make', size)\n" % sub)
  for sub in ('third', 'fourth'):
    os.makedirs(os.path.join(d, 'c19pkg', sub), exist_ok=True)
    open(os.path.join(d, 'c19pkg', sub, '__init__.py'), 'w').close()
    with open(os.path.join(d, 'c19pkg', sub, 'mod.py'), 'w') as fh:
      fh.write("def fn(a=None):\n  return ('%s.fn', a)\n" % sub)
  # a package whose submodule is named like the package (the common tool/tool.py layout), with a function of the same
  # name in the package itself, in the submodule and in a sibling; plus functions that wrap other functions
  os.makedirs(os.path.join(d, 'c19tool'))
  with open(os.path.join(d, 'c19tool', '__init__.py'), 'w') as fh:
    fh.write("def fn(a=None):\n  return ('pkg.fn', a)\n")
  with open(os.path.join(d, 'c19tool', 'helpers.py'), 'w') as fh:
    fh.write("def fn(a=None):\n  return ('helpers.fn', a)\n")
  with open(os.path.join(d, 'c19tool', 'c19tool.py'), 'w') as fh:
    fh.write('''import functools

def fn(a=None):
  return ('mod.fn', a)

def load(path='dflt'):
  return ('load', path)

@functools.wraps(load)
def load_cached(*args, **kwargs):
  return ('load_cached',) + load(*args, **kwargs)[1:]

def load2(path='dflt'):
  return ('load2', path)

load_lru = functools.lru_cache(maxsize=None)(load2)

def consume(source=None):
  return source

def __getattr__(name):          # PEP 562: an attribute that exists only through the module's __getattr__
  if name == 'lazy_fn':
    return fn
  raise AttributeError(name)

class Trainer:
  def __init__(self, lr=None):
    self.lr = lr
  def fit(self, epochs='de'):
    return ('fit', epochs)
  @staticmethod
  def make(warmup='dw'):
    return ('make', warmup)
  @classmethod
  def build(cls, size='ds'):
    return ('build', cls.__name__, size)
  class Schedule:
    def __init__(self, steps=None):
      self.steps = steps
    def rate(self, warmup='dw'):
      return ('rate', warmup)
    class Decay:
      def factor(self, gamma='dg'):
        return ('factor', gamma)

class FineTuner(Trainer):
  def __init__(self, rounds=None, **kw):
    super().__init__(**kw)
    self.rounds = rounds

class DeepTuner(FineTuner):      # two levels below the class that defines `fit`
  pass

Coach = Trainer          # the same class under a second attribute name
''')
  # a library module that registers nested classes / methods itself (by decorator) and is then used by a
  # dynamic-registration file; a top-level object shares the nested class's name
  with open(os.path.join(d, 'c19lib.py'), 'w') as fh:
    fh.write('''import gin

class Optimizer:
  @gin.configurable
  class Schedule:
    def __init__(self, warmup=None):
      self.warmup = warmup

class Schedule:     # a different, unregistered object that merely shares the nested class's name
  def __init__(self, warmup=None):
    self.warmup = ('top-level', warmup)

def consume(source=None):
  return source
''')
  sys.path.insert(0, d)
  import atexit
  atexit.register(lambda: shutil.rmtree(d, ignore_errors=True))
  gin.config.register_file_reader(lambda p: io.StringIO(MEM[p]), lambda p: p in MEM)
  import c19pkg.sub.mod  # pylint: disable=import-outside-toplevel,unused-import
  import c19pkg.other  # pylint: disable=import-outside-toplevel,unused-import
  import c19pkg.third.mod  # pylint: disable=import-outside-toplevel,unused-import
  import c19pkg.fourth.mod  # pylint: disable=import-outside-toplevel,unused-import
  import c19tool, c19tool.c19tool, c19tool.helpers  # pylint: disable=import-outside-toplevel,unused-import,multiple-imports
  import c19lib  # pylint: disable=import-outside-toplevel,unused-import
  import c19pkg.alpha.tools, c19pkg.beta.tools, c19pkg.alpha.deep.tools, c19pkg.beta.deep.tools  # pylint: disable=import-outside-toplevel,unused-import,multiple-imports


HEAD = 'from __gin__ import dynamic_registration\n'
# (import statement, prefix under which attributes of the module are spelled)
FORMS_A = [
    ('import c19pkg.sub.mod', 'c19pkg.sub.mod'),
    ('import c19pkg.sub.mod as m', 'm'),
    ('from c19pkg.sub import mod', 'mod'),
    ('from c19pkg.sub import mod as mm', 'mm'),
    ('from c19pkg import sub', 'sub.mod'),
    ('from c19pkg import sub as other', 'other.mod'),     # alias equal to another module's name
]
FORMS_B = [
    ('import c19pkg.other', 'c19pkg.other'),
    ('import c19pkg.other as o', 'o'),
    ('from c19pkg import other', 'other'),
    ('from c19pkg import other as mod', 'mod'),           # collides with `from c19pkg.sub import mod`
    ('from c19pkg import other as m', 'm'),               # collides with `import ... as m`
]
STRUCTS = ['single', 'a_includes_b', 'b_includes_a', 'two_parses']
TARGETS = ['fn', 'Cls', 'Cls.meth', 'Cls.Nested']


def bound(tier):
  return '%d x %d import forms x %d structures x target orders; %d negative cases' % (
      len(FORMS_A), len(FORMS_B), len(STRUCTS), len(NEGATIVE))


def mods():
  import c19pkg.sub.mod as A  # pylint: disable=import-outside-toplevel
  import c19pkg.other as B  # pylint: disable=import-outside-toplevel
  return A, B


def body_a(pa, order):
  lines = []
  for t in order:
    if t == 'fn':
      lines.append("%s.fn.a = 'A.a'" % pa)
    elif t == 'Cls':
      lines.append("%s.Cls.x = 'A.x'" % pa)
      lines.append("%s.consumer.ref = @%s.Cls" % (pa, pa))
    elif t == 'Cls.meth':
      lines.append("%s.Cls.meth.y = 'A.y'" % pa)
    elif t == 'Cls.Nested':
      lines.append("%s.Cls.Nested.z = 'A.z'" % pa)
  return lines


def observe(order):
  """Reads back everything through the original Python objects."""
  A, B = mods()
  obs = {}
  if 'fn' in order:
    try:
      obs['A.fn'] = gin.get_configurable(A.fn)()
    except Exception as e:  # pylint: disable=broad-except
      obs['A.fn'] = 'raised %s' % type(e).__name__
  try:
    obs['B.fn'] = gin.get_configurable(B.fn)()
  except Exception as e:  # pylint: disable=broad-except
    obs['B.fn'] = 'raised %s' % type(e).__name__
  if 'Cls' in order or 'Cls.meth' in order:
    try:
      inst = gin.get_configurable(A.Cls)()
      obs['Cls.x'] = inst.x
      obs['Cls.isinstance'] = isinstance(inst, A.Cls)
      obs['Cls.meth'] = inst.meth()
    except Exception as e:  # pylint: disable=broad-except
      obs['Cls'] = 'raised %r' % (e,)
  if 'Cls' in order:
    try:
      ref = gin.get_configurable(A.consumer)()
      inst2 = ref()
      obs['ref.x'] = inst2.x
      obs['ref.isinstance'] = isinstance(inst2, A.Cls)
      obs['ref.meth'] = inst2.meth()
    except Exception as e:  # pylint: disable=broad-except
      obs['ref'] = 'raised %r' % (e,)
  if 'Cls.Nested' in order:
    try:
      n = gin.get_configurable(A.Cls.Nested)()
      obs['Nested.z'] = n.z
      obs['Nested.isinstance'] = isinstance(n, A.Cls.Nested)
    except Exception as e:  # pylint: disable=broad-except
      obs['Nested'] = 'raised %r' % (e,)
  return obs


def expected(order):
  exp = {'B.fn': ('other.fn', 'B.a')}
  if 'fn' in order:
    exp['A.fn'] = ('mod.fn', 'A.a', None)
  if 'Cls' in order or 'Cls.meth' in order:
    exp['Cls.x'] = 'A.x' if 'Cls' in order else None
    exp['Cls.isinstance'] = True
    exp['Cls.meth'] = ('meth', 'A.y' if 'Cls.meth' in order else None)
  if 'Cls' in order:
    exp['ref.x'] = 'A.x'
    exp['ref.isinstance'] = True
    exp['ref.meth'] = ('meth', 'A.y' if 'Cls.meth' in order else None)
  if 'Cls.Nested' in order:
    exp['Nested.z'] = 'A.z'
    exp['Nested.isinstance'] = True
  return exp


def run_case(case, res):
  _, fa, fb, struct, order = case
  desc = list(case)
  (imp_a, pa), (imp_b, pb) = FORMS_A[fa], FORMS_B[fb]
  harness.hard_reset()
  MEM.clear()
  la = body_a(pa, order)
  lb = ["%s.fn.a = 'B.a'" % pb]
  collide = pa.split('.')[0] == pb.split('.')[0]
  res.case(tuple(map(repr, case)), True)
  try:
    if struct == 'single':
      if collide:
        # later import rebinds the name, exactly like Python: use A first, then import B
        text = HEAD + imp_a + '\n' + '\n'.join(la) + '\n' + imp_b + '\n' + '\n'.join(lb) + '\n'
      else:
        text = HEAD + imp_a + '\n' + imp_b + '\n' + '\n'.join(la + lb) + '\n'
      gin.parse_config(text)
    elif struct == 'a_includes_b':
      MEM['c19_b.gin'] = HEAD + imp_b + '\n' + '\n'.join(lb) + '\n'
      gin.parse_config(HEAD + imp_a + '\n' + la[0] + "\ninclude 'c19_b.gin'\n" + '\n'.join(la[1:]) + '\n')
    elif struct == 'b_includes_a':
      MEM['c19_a.gin'] = HEAD + imp_a + '\n' + '\n'.join(la) + '\n'
      gin.parse_config(HEAD + imp_b + "\ninclude 'c19_a.gin'\n" + '\n'.join(lb) + '\n')
    else:
      gin.parse_config(HEAD + imp_a + '\n' + '\n'.join(la) + '\n')
      gin.parse_config(HEAD + imp_b + '\n' + '\n'.join(lb) + '\n')
    out = 'ok'
  except Exception as e:  # pylint: disable=broad-except
    out, exc = 'error', e
  res.outcome('parse:' + out)
  if out != 'ok':
    res.violation('dynamic_parse_failed', '%r: %r' % (desc, exc), desc)
    return
  A, B = mods()
  for o in ((A.fn, B.fn) if 'fn' in order else (B.fn,)):
    if o not in cfg._INVERSE_REGISTRY or cfg._INVERSE_REGISTRY[o].wrapped is not o:
      res.violation('wrong_object_registered', '%r: %r is not the registered object' % (desc, o), desc)
      return
  got, exp = observe(order), expected(order)
  if got != exp:
    diff = {k: (got.get(k), exp.get(k)) for k in set(got) | set(exp) if got.get(k) != exp.get(k)}
    sig = 'configured_object'
    if any(k.startswith('ref') for k in diff):
      sig = 'stored_reference_broken'
    res.violation(sig, '%r: read back through the original objects: (got, expected) %r' % (desc, diff), desc)
    return
  res.w('exact_object_configured')
  if 'Cls.meth' in order:
    res.w('method_configured')
  if 'Cls.Nested' in order:
    res.w('nested_class_configured')
  if 'Cls' in order and 'Cls.meth' in order and order.index('Cls') < order.index('Cls.meth'):
    res.w('reference_survives_method_registration')
  # ---- spellings alias the same configurable: query through every other import form
  for (imp2, p2) in FORMS_A:
    if 'fn' not in order:
      break
    try:
      gin.parse_config(HEAD + imp2 + '\n' + "%s.fn.b = 'via:%s'\n" % (p2, p2))
      r = gin.get_configurable(A.fn)()
    except Exception as e:  # pylint: disable=broad-except
      res.violation('spelling_not_aliased', '%r: binding through %r raised %r' % (desc, imp2, e), desc)
      return
    if r != ('mod.fn', 'A.a', 'via:%s' % p2):
      res.violation('spelling_not_aliased', '%r: binding through %r not applied to the same configurable: %r' %
                    (desc, imp2, r), desc)
      return
    res.w('spellings_alias_same_configurable')
  if 'fn' in order:
    gin.parse_config(HEAD + imp_a + '\n' + "%s.fn.b = None\n" % pa)
  # ---- config_str re-parses to the same bindings on the same objects
  s = gin.config_str()
  harness.hard_reset()
  try:
    gin.parse_config(s)
  except Exception as e:  # pylint: disable=broad-except
    res.violation('config_str_unparseable', '%r: config_str does not re-parse (%r):\n%s' % (desc, e, s), desc)
    return
  got2 = observe(order)
  exp2 = dict(exp)
  if got2 != exp2:
    diff = {k: (got2.get(k), exp2.get(k)) for k in set(got2) | set(exp2) if got2.get(k) != exp2.get(k)}
    res.violation('config_str_roundtrip_objects', '%r: after re-parsing config_str: (got, expected) %r\n%s' %
                  (desc, diff, s), desc)
    return
  # (Textual idempotence of config_str is C06's subject; here: same bindings on the same objects, and the second
  #  text must itself re-parse.)
  s2 = gin.config_str()
  harness.hard_reset()
  try:
    gin.parse_config(s2)
  except Exception as e:  # pylint: disable=broad-except
    res.violation('config_str_unparseable', '%r: second-generation config_str does not re-parse (%r):\n%s' %
                  (desc, e, s2), desc)
    return
  res.w('config_str_reparses')
  if collide:
    res.w('colliding_names_realiased')


NEGATIVE = {
    'foreign_import_from_includer': (
        {'c19_inc.gin': HEAD + "mod.fn.a = 1\n"},
        HEAD + "from c19pkg.sub import mod\ninclude 'c19_inc.gin'\n", NameError, 'foreign_import_rejected'),
    'foreign_import_from_included': (
        {'c19_inc.gin': HEAD + "from c19pkg.sub import mod\nmod.fn.a = 1\n"},
        HEAD + "include 'c19_inc.gin'\nmod.fn.b = 2\n", NameError, 'foreign_import_rejected'),
    'foreign_import_previous_parse': (
        {}, [HEAD + "from c19pkg.sub import mod\nmod.fn.a = 1\n", HEAD + "mod.fn.b = 2\n"], NameError,
        'foreign_import_rejected'),
    'not_imported_at_all': ({}, HEAD + "c19pkg.sub.mod.fn.a = 1\n", NameError, 'foreign_import_rejected'),
    'reserved_gin_alias': ({}, HEAD + "import c19pkg.other as gin\n", ValueError, 'reserved_gin_rejected'),
    'reserved_gin_from': ({}, HEAD + "from c19pkg import other as gin\n", ValueError, 'reserved_gin_rejected'),
    'late_enabling': ({}, "import c19pkg.other\n" + HEAD, SyntaxError, 'late_enabling_rejected'),
    'late_enabling_after_from': ({}, "from c19pkg import other\n" + HEAD, SyntaxError, 'late_enabling_rejected'),
    'aliased_enabling': ({}, "from __gin__ import dynamic_registration as dr\n", SyntaxError,
                         'aliased_enabling_rejected'),
    'unknown_feature': ({}, "from __gin__ import no_such_feature\n", SyntaxError, 'unknown_feature_rejected'),
    # unknown features whose dotted path merely BEGINS like the known one
    'unknown_feature_below_known': ({}, "from __gin__.dynamic_registration import extras\nfrom c19pkg.sub import mod\nmod.fn.a = 1\n",
                                    SyntaxError, 'unknown_feature_rejected'),
    'unknown_feature_below_known_deep': ({}, "from __gin__.dynamic_registration.v2 import strict\n", SyntaxError,
                                         'unknown_feature_rejected'),
    'unknown_feature_prefixed': ({}, "from __gin__ import dynamic_registration2\n", SyntaxError, 'unknown_feature_rejected'),
    'missing_attribute': ({}, HEAD + "from c19pkg.sub import mod\nmod.nofn.a = 1\n", AttributeError,
                          'missing_attribute_rejected'),
    'missing_nested_attribute': ({}, HEAD + "from c19pkg.sub import mod\nmod.Cls.nometh.a = 1\n", AttributeError,
                                 'missing_attribute_rejected'),
    'reference_to_foreign': ({}, HEAD + "from c19pkg.sub import mod\nmod.fn.a = @other.fn()\n", NameError,
                             'foreign_import_rejected'),
}


def run_negative(case, res):
  name = case[1]
  mem, texts, exc_cls, wit = NEGATIVE[name]
  harness.hard_reset()
  MEM.clear()
  MEM.update(mem)
  res.case(tuple(case), True)
  texts = texts if isinstance(texts, list) else [texts]
  try:
    for t in texts[:-1]:
      gin.parse_config(t)
    gin.parse_config(texts[-1])
    out = 'accepted'
  except exc_cls:
    out = 'rejected'
  except Exception as e:  # pylint: disable=broad-except
    out = 'other:%s' % type(e).__name__
  res.outcome('neg:' + out)
  if out != 'rejected':
    res.violation('negative_case:' + name, '%r: expected %s, got %s; config:\n%s' %
                  (case, exc_cls.__name__, out, gin.config_str()), list(case))
  else:
    res.w(wit)


MULTI_IMPORTS = {
    'sub': ['from c19pkg.sub import mod', 'from c19pkg.sub import mod as mod2', 'from c19pkg.sub import mod as mod3'],
    'other': ['from c19pkg import other as mod', 'from c19pkg import other as mod2'],
    'third': ['from c19pkg.third import mod', 'from c19pkg.third import mod as mod2', 'from c19pkg.third import mod as m'],
    'fourth': ['from c19pkg.fourth import mod', 'from c19pkg.fourth import mod as mod3'],
}


PLAIN_MODS = ['c19pkg.alpha.tools', 'c19pkg.beta.tools', 'c19pkg.alpha.deep.tools', 'c19pkg.beta.deep.tools',
              'c19pkg.other']


def plain_cases():
  """Several plain `import a.b.c` statements sharing the top-level name in ONE file (module paths that diverge and
  coincide again), every subset of them actually configured, every import order."""
  for k in (2, 3):
    for mods_ in itertools.permutations(PLAIN_MODS, k):
      for used in range(1, 2 ** k):
        yield ['plain', list(mods_), used]


def run_plain(case, res):
  _, mods_, used = case
  desc = list(case)
  harness.hard_reset()
  import importlib
  res.case(tuple(map(repr, case)), True)
  text = HEAD + ''.join('import %s\n' % m for m in mods_)
  want = {}
  for i, m in enumerate(mods_):
    if used >> i & 1:
      fn = 'fn.a' if m.endswith('other') else 'make.size'
      text += "%s.%s = 'v:%s'\n" % (m, fn, m)
      want[m] = 'v:%s' % m
  try:
    gin.parse_config(text)
  except Exception as e:  # pylint: disable=broad-except
    res.violation('dynamic_parse_failed', '%r: %r' % (desc, e), desc)
    return

  def read():
    out = {}
    for m in want:
      o = getattr(importlib.import_module(m), 'fn' if m.endswith('other') else 'make')
      try:
        out[m] = gin.get_configurable(o)()[1]
      except Exception as e:  # pylint: disable=broad-except
        out[m] = 'raised %s' % type(e).__name__
    return out
  if read() != want:
    res.violation('configured_object', '%r: read back %r, expected %r' % (desc, read(), want), desc)
    return
  s1 = gin.config_str()
  harness.hard_reset()
  try:
    gin.parse_config(s1)
    got2 = read()
  except Exception as e:  # pylint: disable=broad-except
    res.violation('config_str_unparseable', '%r: config_str does not re-parse (%r):\n%s' % (desc, e, s1), desc)
    return
  others = {}
  for m in PLAIN_MODS:
    if m not in want:
      o = getattr(importlib.import_module(m), 'fn' if m.endswith('other') else 'make')
      try:
        r = gin.get_configurable(o)()
        if r[1] is not None:
          others[m] = r[1]
      except Exception:  # pylint: disable=broad-except
        pass
  if got2 != want or others:
    res.violation('config_str_roundtrip_objects', '%r: after re-parsing config_str the objects see %r (others %r), '
                  'expected %r\n%s' % (desc, got2, others, want, s1), desc)
    return
  res.w('config_str_reparses')
  res.outcome('plain')


def multi_cases():
  """3 or 4 modules whose imports bind the same (or a generator-style) name, one file each, chained by includes."""
  for mods_ in (('sub', 'other', 'third'), ('sub', 'third', 'fourth'), ('sub', 'other', 'third', 'fourth')):
    for forms in itertools.product(*[range(len(MULTI_IMPORTS[m])) for m in mods_]):
      for struct in ('chain', 'separate_parses'):
        yield ['multi', list(mods_), list(forms), struct]


def run_multi(case, res):
  _, mods_, forms, struct = case
  desc = list(case)
  harness.hard_reset()
  MEM.clear()
  res.case(tuple(map(repr, case)), True)
  import importlib
  objs = {'sub': importlib.import_module('c19pkg.sub.mod').fn, 'other': importlib.import_module('c19pkg.other').fn,
          'third': importlib.import_module('c19pkg.third.mod').fn, 'fourth': importlib.import_module('c19pkg.fourth.mod').fn}
  texts = []
  for m, f in zip(mods_, forms):
    imp = MULTI_IMPORTS[m][f]
    name = imp.split(' as ')[1] if ' as ' in imp else imp.split()[-1]
    texts.append(HEAD + imp + '\n' + "%s.fn.a = 'val:%s'\n" % (name, m))
  try:
    if struct == 'chain':
      for i in range(len(texts) - 1, 0, -1):
        MEM['c19_m%d.gin' % i] = texts[i] + ("include 'c19_m%d.gin'\n" % (i + 1) if i + 1 < len(texts) else '')
      gin.parse_config(texts[0] + "include 'c19_m1.gin'\n")
    else:
      for t in texts:
        gin.parse_config(t)
  except Exception as e:  # pylint: disable=broad-except
    res.violation('dynamic_parse_failed', '%r: %r' % (desc, e), desc)
    return

  def read():
    out = {}
    for m in mods_:
      try:
        out[m] = gin.get_configurable(objs[m])()[1]
      except Exception as e:  # pylint: disable=broad-except
        out[m] = 'raised %s' % type(e).__name__
    return out
  want = {m: 'val:%s' % m for m in mods_}
  got = read()
  if got != want:
    res.violation('configured_object', '%r: read back %r, expected %r' % (desc, got, want), desc)
    return
  s1 = gin.config_str()
  harness.hard_reset()
  try:
    gin.parse_config(s1)
  except Exception as e:  # pylint: disable=broad-except
    res.violation('config_str_unparseable', '%r: config_str does not re-parse (%r):\n%s' % (desc, e, s1), desc)
    return
  got2 = read()
  if got2 != want:
    res.violation('config_str_roundtrip_objects', '%r: after re-parsing config_str the objects see %r, expected %r\n%s' %
                  (desc, got2, want, s1), desc)
    return
  res.w('colliding_names_realiased')
  res.w('config_str_reparses')
  res.outcome('multi')


U = 'unregistered'
SPECIAL = {
    # name -> (config text after HEAD, {object: (call result, bindings) for every registered object of interest})
    'from_pkg_import_same_named_module': ("from c19tool import c19tool\nc19tool.fn.a = 1\n", {'mod.fn': (('mod.fn', 1), {'a': 1})}),
    'from_pkg_import_same_named_module_as_itself': ("from c19tool import c19tool as c19tool\nc19tool.fn.a = 1\n",
                                                    {'mod.fn': (('mod.fn', 1), {'a': 1})}),
    'sibling_aliased_to_package_name': ("import c19tool.helpers as c19tool\nc19tool.fn.a = 1\n",
                                        {'helpers.fn': (('helpers.fn', 1), {'a': 1})}),
    'same_named_module_aliased_to_package_name': ("import c19tool.c19tool as c19tool\nc19tool.fn.a = 1\n",
                                                  {'mod.fn': (('mod.fn', 1), {'a': 1})}),
    'plain_package': ("import c19tool\nc19tool.fn.a = 1\n", {'pkg.fn': (('pkg.fn', 1), {'a': 1})}),
    'plain_module_spells_both': ("import c19tool.c19tool\nc19tool.c19tool.fn.a = 1\nc19tool.fn.a = 2\n",
                                 {'mod.fn': (('mod.fn', 1), {'a': 1}), 'pkg.fn': (('pkg.fn', 2), {'a': 2})}),
    'wrapped_then_wrapper': ("from c19tool import c19tool as t\nt.load.path = 'p1'\nt.load_cached.path = 'p2'\n"
                             "t.consume.source = @t.load_cached()\n",
                             {'load': (('load', 'p1'), {'path': 'p1'}), 'load_cached': (('load_cached', 'p2'), {'path': 'p2'}),
                              'consume': (('load_cached', 'p2'), {'source': '@ref'})}),
    'wrapper_then_wrapped': ("from c19tool import c19tool as t\nt.load_cached.path = 'p2'\nt.load.path = 'p1'\n"
                             "t.consume.source = @t.load()\n",
                             {'load': (('load', 'p1'), {'path': 'p1'}), 'load_cached': (('load_cached', 'p2'), {'path': 'p2'}),
                              'consume': (('load', 'p1'), {'source': '@ref'})}),
    'lazy_module_attribute': ("from c19tool import c19tool as t\nt.lazy_fn.a = 4\n", {'mod.fn': (('mod.fn', 4), {'a': 4})}),
    'wrapper_only': ("from c19tool import c19tool as t\nt.load_cached.path = 'p2'\n",
                     {'load_cached': (('load_cached', 'p2'), {'path': 'p2'})}),
    'wrapped_only_then_reference_to_wrapper': ("from c19tool import c19tool as t\nt.load.path = 'p1'\n"
                                               "t.consume.source = @t.load_cached()\n",
                                               {'load': (('load', 'p1'), {'path': 'p1'}), 'load_cached': (('load_cached', 'dflt'), {}),
                                                'consume': (('load_cached', 'dflt'), {'source': '@ref'})}),
    'lru_wrapped_then_wrapper': ("import c19tool.c19tool as t\nt.load2.path = 'a'\nt.load_lru.path = 'b'\n",
                                 {'load2': (('load2', 'a'), {'path': 'a'}), 'load_lru': (('load2', 'b'), {'path': 'b'})}),
    'lru_wrapper_then_wrapped': ("import c19tool.c19tool as t\nt.load_lru.path = 'b'\nt.load2.path = 'a'\n",
                                 {'load2': (('load2', 'a'), {'path': 'a'}), 'load_lru': (('load2', 'b'), {'path': 'b'})}),
    # the same alias bound to two sibling modules by two files (each file resolves through its OWN imports)
    'alias_reused_for_sibling_two_parses': (["import c19tool.helpers as x\nx.fn.a = 1\n", "import c19tool.c19tool as x\nx.fn.a = 2\n"],
                                            {'helpers.fn': (('helpers.fn', 1), {'a': 1}), 'mod.fn': (('mod.fn', 2), {'a': 2})}),
    'from_alias_reused_for_sibling_two_parses': (["from c19tool import helpers as h\nh.fn.a = 1\n",
                                                  "from c19tool import c19tool as h\nh.fn.a = 2\n"],
                                                 {'helpers.fn': (('helpers.fn', 1), {'a': 1}), 'mod.fn': (('mod.fn', 2), {'a': 2})}),
    'alias_equal_to_sibling_module_name': (["import c19tool.helpers as c19tool\nc19tool.fn.a = 1\n",
                                            "import c19tool.c19tool\nc19tool.c19tool.fn.a = 2\n"],
                                           {'helpers.fn': (('helpers.fn', 1), {'a': 1}), 'mod.fn': (('mod.fn', 2), {'a': 2})}),
}


def special_observe():
  import c19tool  # pylint: disable=import-outside-toplevel
  m, h = c19tool.c19tool, c19tool.helpers
  objs = {'pkg.fn': c19tool.fn, 'mod.fn': m.fn, 'helpers.fn': h.fn, 'load': m.load, 'load_cached': m.load_cached,
          'load2': m.load2, 'load_lru': m.load_lru, 'consume': m.consume}
  obs = {}
  for name, o in objs.items():
    try:
      c = gin.get_configurable(o)
    except ValueError:
      continue
    try:
      b = {k: (v if isinstance(v, (str, int)) else '@ref') for k, v in gin.get_bindings(o, resolve_references=False).items()}
      obs[name] = (c(), b)
    except Exception as e:  # pylint: disable=broad-except
      obs[name] = 'raised %r' % (e,)
  return obs


def run_special(case, res):
  name = case[1]
  text, want = SPECIAL[name]
  harness.hard_reset()
  MEM.clear()
  res.case(tuple(case), True)
  texts = text if isinstance(text, list) else [text]
  try:
    for t in texts:
      gin.parse_config(HEAD + t)
    got = special_observe()
  except Exception as e:  # pylint: disable=broad-except
    if len(texts) > 1 and isinstance(e, ValueError) and 'A different configurable matching' in str(e):
      res.violation('alias_reuse_collides_in_registry', '%r: configs %r: the second file binds the alias through its own '
                    'import, yet %r' % (case, texts, e), list(case))
    else:
      res.violation('special:' + name, '%r: config\n%s\nraised %r' % (case, text, e), list(case))
    return
  res.outcome('special')
  if got != want:
    res.violation('wrong_object_configured', '%r: config\n%s\nregistered/configured %r, expected %r' %
                  (case, text, got, want), list(case))
    return
  try:
    emitted = gin.config_str()
    harness.hard_reset()
    gin.parse_config(emitted)
    again = special_observe()
  except Exception as e:  # pylint: disable=broad-except
    res.violation('special_roundtrip:' + name, '%r: re-parsing the config string raised %r' % (case, e), list(case))
    return
  if again != want:
    res.violation('special_roundtrip:' + name, '%r: config string\n%s\nconfigures %r, expected %r' %
                  (case, emitted, again, want), list(case))
    return
  res.w('bound_name_equal_to_package' if 'load' not in ''.join(texts) else 'wrapper_and_wrapped_distinct')


NESTED_FORMS = [('from c19tool import c19tool as t', 't'), ('import c19tool.c19tool', 'c19tool.c19tool'),
                ('from c19tool import c19tool', 'c19tool'), ('import c19tool.c19tool as c19tool', 'c19tool')]


def run_nested(case, res):
  """Methods of nested classes (any depth), configured before / after a reference to the class exists."""
  _, fi, order = case
  imp, pre = NESTED_FORMS[fi]
  lines = {'ref': "%s.consume.source = [@%s.Trainer.Schedule(), @sc/%s.Trainer.Schedule()]\nsc/%s.Trainer.Schedule.steps = 'scoped'"
                  % (pre, pre, pre, pre),
           'rate': "%s.Trainer.Schedule.rate.warmup = 'W'" % pre,
           'factor': "%s.Trainer.Schedule.Decay.factor.gamma = 'G'" % pre,
           'fit': "%s.Trainer.fit.epochs = 'E'" % pre,
           'steps': '%s.Trainer.Schedule.steps = 7' % pre}
  text = HEAD + imp + '\n' + '\n'.join(lines[k] for k in order) + '\n'
  harness.hard_reset()
  MEM.clear()
  res.case(tuple(map(str, case)), True)
  import c19tool  # pylint: disable=import-outside-toplevel
  m = c19tool.c19tool
  want = {'rate': ('rate', 'W'), 'factor': ('factor', 'G'), 'fit': ('fit', 'E'), 'steps': 7, 'ref.rate': ('rate', 'W'),
          'ref.steps': 7, 'scoped_ref.rate': ('rate', 'W'), 'scoped_ref.steps': 'scoped'}

  def observe():
    obs = {}
    obs['rate'] = gin.get_configurable(m.Trainer.Schedule)().rate()
    obs['steps'] = gin.get_configurable(m.Trainer.Schedule)().steps
    obs['factor'] = gin.get_configurable(m.Trainer.Schedule.Decay)().factor()
    obs['fit'] = gin.get_configurable(m.Trainer)().fit()
    inst, scoped_inst = gin.get_configurable(m.consume)()
    obs['ref.rate'], obs['ref.steps'] = inst.rate(), inst.steps
    obs['scoped_ref.rate'], obs['scoped_ref.steps'] = scoped_inst.rate(), scoped_inst.steps
    return obs
  try:
    gin.parse_config(text)
    got = observe()
    emitted = gin.config_str()
    harness.hard_reset()
    gin.parse_config(emitted)
    again = observe()
  except Exception as e:  # pylint: disable=broad-except
    res.violation('nested_class_method', '%r: config\n%s\nraised %r' % (case, text, e), list(case))
    return
  res.outcome('nested')
  if got != want or again != want:
    res.violation('nested_class_method', '%r: config\n%s\nobjects see %r (after re-parsing the config string %r), expected %r'
                  % (case, text, got, again, want), list(case))
  else:
    res.w('nested_class_method_configured')


# different spellings (and files) of one object address one configurable; references made under one spelling keep
# working when a method is configured under another
SPELL_HEAD = 'from __gin__ import dynamic_registration\n'
SPELLINGS = {
    'method_in_later_file_other_alias': (
        [SPELL_HEAD + "import c19tool.c19tool as a\na.consume.source = @a.Trainer()\na.Trainer.lr = 1\n",
         SPELL_HEAD + "import c19tool.c19tool as b\nb.Trainer.fit.epochs = 3\n"], {'lr': 1, 'fit': ('fit', 3)}),
    'two_spellings_one_file': (
        [SPELL_HEAD + "import c19tool.c19tool as a\nfrom c19tool import c19tool\na.Trainer.lr = 1\n"
         "a.consume.source = @a.Trainer()\nc19tool.Trainer.fit.epochs = 3\n"], {'lr': 1, 'fit': ('fit', 3)}),
    'binding_under_second_spelling': (
        [SPELL_HEAD + "import c19tool.c19tool as a\nfrom c19tool import c19tool\na.consume.source = @a.Trainer()\n"
         "c19tool.Trainer.lr = 7\n"], {'lr': 7, 'fit': ('fit', 'de')}),
    'reference_and_method_in_one_list': (
        [SPELL_HEAD + "import c19tool.c19tool as a\na.consume.source = [@a.Trainer(), @a.Trainer.fit]\na.Trainer.fit.epochs = 3\n"],
        {'lr': None, 'fit': ('fit', 3)}),
    'class_under_two_attribute_names': (
        [SPELL_HEAD + "from c19tool import c19tool as t\nt.Trainer.lr = 4\nt.consume.source = @t.Trainer()\nt.Coach.fit.epochs = 3\n"],
        {'lr': 4, 'fit': ('fit', 3)}),
    'class_under_two_attribute_names_alias_first': (
        [SPELL_HEAD + "from c19tool import c19tool as t\nt.consume.source = @t.Coach()\nt.Coach.lr = 4\nt.Trainer.fit.epochs = 3\n"],
        {'lr': 4, 'fit': ('fit', 3)}),
    'static_method': (
        [SPELL_HEAD + "from c19tool import c19tool as t\nt.consume.source = @t.Trainer()\nt.Trainer.make.warmup = 100\nt.Trainer.lr = 2\n"],
        {'lr': 2, 'fit': ('fit', 'de'), 'make': ('make', 100), 'make_registered': True}),
    'reference_in_earlier_file_method_in_included': (
        [SPELL_HEAD + "from c19tool import c19tool as t\nt.consume.source = @sc/t.Trainer()\nsc/t.Trainer.lr = 5\ninclude 'c19_sp.gin'\n"],
        {'lr': 5, 'fit': ('fit', 3)}),
}


def run_spelling(case, res):
  name = case[1]
  texts, want = SPELLINGS[name]
  harness.hard_reset()
  MEM.clear()
  MEM['c19_sp.gin'] = SPELL_HEAD + "import c19tool.c19tool as other\nother.Trainer.fit.epochs = 3\n"
  res.case(tuple(case), True)
  import c19tool  # pylint: disable=import-outside-toplevel
  m = c19tool.c19tool

  def observe():
    v = gin.get_configurable(m.consume)()
    inst = v[0] if isinstance(v, list) else v
    out = {'lr': inst.lr, 'fit': inst.fit()}
    if name == 'static_method':
      out['make'] = inst.make()
      try:
        out['make_registered'] = gin.get_configurable(m.Trainer.make)() == ('make', 100)
      except Exception:  # pylint: disable=broad-except
        out['make_registered'] = False
    return out
  two_methods = None
  try:
    for t in texts:
      gin.parse_config(t)
    got = observe()
    emitted = gin.config_str()
    harness.hard_reset()
    MEM['c19_sp.gin'] = SPELL_HEAD + "import c19tool.c19tool as other\nother.Trainer.fit.epochs = 3\n"
    gin.parse_config(emitted)
    again = observe()
  except Exception as e:  # pylint: disable=broad-except
    res.violation('spellings_one_configurable', '%r: configs %r raised %r' % (case, texts, e), list(case))
    return
  res.outcome('spelling')
  if got != want or again != want:
    res.violation('spellings_one_configurable', '%r: configs %r: the object reached through the stored reference sees %r '
                  '(after re-parsing the config string %r), expected %r' % (case, texts, got, again, want), list(case))
  else:
    res.w('spellings_one_configurable')


# a class and a subclass of it that inherits a configured method: every order of first use
INHERIT = {
    'base_method_then_subclass': ("t.Trainer.fit.epochs = 3\nt.FineTuner.rounds = 2\nt.consume.source = @t.FineTuner()\n",
                                  {'rounds': 2, 'fit': ('fit', 3)}),
    'subclass_then_base_method': ("t.FineTuner.rounds = 2\nt.Trainer.fit.epochs = 3\nt.consume.source = @t.FineTuner()\n",
                                  {'rounds': 2, 'fit': ('fit', 3)}),
    'reference_to_subclass_then_base_method': ("t.consume.source = @t.FineTuner()\nt.Trainer.fit.epochs = 3\nt.FineTuner.rounds = 2\n",
                                               {'rounds': 2, 'fit': ('fit', 3)}),
    'method_through_subclass_then_base': ("t.FineTuner.fit.epochs = 3\nt.Trainer.lr = 1\nt.consume.source = @t.FineTuner()\n",
                                          {'rounds': None, 'fit': ('fit', 3)}),
    'base_referenced_method_through_subclass': ("t.consume.source = @t.Trainer()\nt.FineTuner.fit.epochs = 3\n",
                                                {'rounds': 'n/a', 'fit': ('fit', 3)}),
    'base_referenced_method_through_subclass_then_base': ("t.consume.source = @t.Trainer()\nt.FineTuner.fit.epochs = 7\nt.Trainer.fit.epochs = 3\n",
                                                          {'rounds': 'n/a', 'fit': ('fit', 3)}),
    'leaf_referenced_method_through_root': ("t.consume.source = @t.DeepTuner()\nt.Trainer.fit.epochs = 3\n",
                                            {'rounds': None, 'fit': ('fit', 3)}),
    'leaf_and_mid_referenced_method_through_root': ("t.consume.source = [@t.DeepTuner(), @t.FineTuner()]\nt.Trainer.fit.epochs = 3\n",
                                                    {'rounds': None, 'fit': ('fit', 3), 'second_fit': ('fit', 3)}),
    'base_and_subclass_instances': ("t.Trainer.fit.epochs = 3\nt.FineTuner.rounds = 2\nt.consume.source = [@t.FineTuner(), @t.Trainer()]\n",
                                    {'rounds': 2, 'fit': ('fit', 3), 'second_fit': ('fit', 3)}),
}


def run_inherit(case, res):
  name = case[1]
  text, want = INHERIT[name]
  text = SPELL_HEAD + 'from c19tool import c19tool as t\n' + text
  harness.hard_reset()
  MEM.clear()
  res.case(tuple(case), True)
  import c19tool  # pylint: disable=import-outside-toplevel
  m = c19tool.c19tool

  def observe():
    v = gin.get_configurable(m.consume)()
    inst = v[0] if isinstance(v, list) else v
    out = {'rounds': getattr(inst, 'rounds', 'n/a'), 'fit': inst.fit()}
    if isinstance(v, list):
      out['second_fit'] = v[1].fit()
    return out
  try:
    gin.parse_config(text)
    got = observe()
    emitted = gin.config_str()
    harness.hard_reset()
    gin.parse_config(emitted)
    again = observe()
  except Exception as e:  # pylint: disable=broad-except
    res.violation('inherited_method', '%r: config\n%s\nraised %r' % (case, text, e), list(case))
    return
  res.outcome('inherit')
  if got != want or again != want:
    res.violation('inherited_method', '%r: config\n%s\nconfigures %r (after re-parsing the config string %r), expected %r' %
                  (case, text, got, again, want), list(case))
  else:
    res.w('inherited_method_configured')


LIBREG = {
    'nested_binding': "import c19lib\nc19lib.Optimizer.Schedule.warmup = 10\n",
    'nested_reference': "import c19lib as L\nL.Optimizer.Schedule.warmup = 10\nL.consume.source = @L.Optimizer.Schedule()\n",
}


def run_libreg(case, res):
  name = case[1]
  text = LIBREG[name]
  harness.hard_reset()
  MEM.clear()
  res.case(tuple(case), True)
  import c19lib  # pylint: disable=import-outside-toplevel

  def observe():
    obs = {'nested': gin.get_configurable(c19lib.Optimizer.Schedule)().warmup}
    try:
      obs['top'] = gin.get_configurable(c19lib.Schedule)().warmup
    except ValueError:
      obs['top'] = 'unregistered'
    if 'consume' in text:
      obs['ref'] = gin.get_configurable(c19lib.consume)().warmup
    return obs
  want = {'nested': 10, 'top': 'unregistered'}
  if 'consume' in text:
    want['ref'] = 10
  try:
    gin.parse_config(HEAD + text)
    got = observe()
    emitted = gin.config_str()
    harness.hard_reset()
    gin.parse_config(emitted)
    again = observe()
  except Exception as e:  # pylint: disable=broad-except
    res.violation('config_str_roundtrip_objects', '%r: config\n%s\nraised %r' % (case, text, e), list(case))
    return
  res.outcome('libreg')
  if got != want or again != want:
    res.violation('config_str_roundtrip_objects', '%r: config\n%s\nobjects see %r, after re-parsing the config string %r, '
                  'expected %r\n%s' % (case, text, got, again, want, emitted), list(case))
  else:
    res.w('library_registered_nested_class')


def gen(tier):
  for n in SPELLINGS:
    yield ['spelling', n]
  for n in LIBREG:
    yield ['libreg', n]
  for n in INHERIT:
    yield ['inherit', n]
  for fi in range(len(NESTED_FORMS)):
    for order in (['ref', 'rate', 'factor', 'fit', 'steps'], ['rate', 'factor', 'fit', 'steps', 'ref'],
                  ['steps', 'ref', 'factor', 'rate', 'fit']):
      yield ['nested', fi, order]
  for n in SPECIAL:
    yield ['special', n]
  yield from multi_cases()
  yield from plain_cases()
  orders = [['fn'], ['fn', 'Cls', 'Cls.meth', 'Cls.Nested'], ['Cls.meth', 'Cls', 'fn'], ['Cls', 'Cls.meth'],
            ['Cls.Nested', 'fn']]
  if tier != 'quick':
    orders += [list(p) for p in itertools.permutations(TARGETS)]
  for fa, fb, st in itertools.product(range(len(FORMS_A)), range(len(FORMS_B)), STRUCTS):
    for order in orders:
      yield ['dyn', fa, fb, st, order]
  for n in NEGATIVE:
    yield ['neg', n]


NSH = 32


def shards(tier):
  return list(range(NSH))


def run_shard(i, tier):
  res = core.Result()
  for n, c in enumerate(gen(tier)):
    if n % NSH != i:
      continue
    try:
      {'neg': run_negative, 'multi': run_multi, 'plain': run_plain, 'special': run_special, 'nested': run_nested, 'libreg': run_libreg, 'spelling': run_spelling, 'inherit': run_inherit}.get(c[0], run_case)(c, res)
    except Exception:  # pylint: disable=broad-except
      import traceback
      res.extra['harness_error'] = traceback.format_exc() + '\ncase=%r' % (c,)
      break
    if n % 211 == i:
      res.sample({'case': c})
  harness.hard_reset()
  return res


def replay(c):
  res = core.Result()
  {'neg': run_negative, 'multi': run_multi, 'plain': run_plain, 'special': run_special, 'nested': run_nested, 'libreg': run_libreg, 'spelling': run_spelling, 'inherit': run_inherit}.get(c[0], run_case)(c, res)
  harness.hard_reset()
  return res
