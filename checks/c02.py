"""C02 — literal values parse to exactly what Python evaluates them to; near-misses are rejected.

E3: every term of the literal grammar up to a container depth/width bound, rendered in every layout of a
finite menu, through every value entry point; oracle = Python's own eval() of the same text (value AND type,
recursively).  Every near-miss (mutation menu applied at top level and inside each container kind) must raise
SyntaxError / tokenize.TokenError and leave the configuration untouched.
"""
import itertools
import math
import tokenize
import warnings

from vf import core
from vf import harness
from vf.harness import gin, cfg

ID = 'C02'
LEVEL = 'exploration'
RULE = ('in-grammar: all atoms (numbers, signs, bools/None, string/bytes pieces and every adjacent concatenation of '
        '<=k pieces) at top level and inside each container kind, all container terms to depth D / width W over a '
        'representative element pool, each in every layout x entry point; oracle eval(text). near-miss: mutation '
        'menu x position (top, list, tuple, dict value, dict key). Distinct = distinct rendered text; non-trivial = '
        'anything but a bare decimal int.')
ASSUMPTIONS = ['CPython 3.12 tokenizer and eval as the reference semantics',
               'Python-legal texts outside the statement grammar (bare tuples, 1+2j, ..., -True, *-unpacking, set '
               'displays are near-misses) are in neither class unless listed']
WITNESSES = ['dict_repeated_key', 'concat_with_empty_piece', 'negative_number', 'one_tuple', 'trailing_comma', 'comment_in_brackets',
             'newline_in_brackets', 'nested_depth2', 'bytes_value', 'nearmiss_rejected', 'triple_quoted',
             'minus_before_ref_rejected', 'trailing_junk_rejected', 'mixed_str_bytes_rejected',
             'odd_line_separator_char']

SENT = object()
warnings.simplefilter('ignore')


def setup():
  @gin.configurable(module='c02')
  def fn(p=None, q=None):
    return p

  @gin.configurable(module='c02')
  def g():
    return 7
  gin.parse_config('mac = 1')  # a macro so that %mac exists
  global FN
  FN = fn


def bound(tier):
  return ('container depth<=%d width<=%d; adjacent concatenation of <=%d pieces; %d layouts' %
          ((2, 2, 2, len(LAYOUTS)) if tier == 'quick' else (3, 3, 3, len(LAYOUTS))))


NUMS = ['0', '7', '12', '1_000', '0x1F', '0X1f', '0o17', '0b101', '00', '1.', '.5', '1.5', '1e3', '1E-2', '1e+2',
        '1_0.5e1_0', '2j', '1.5J', '0.0', '123456789012345678901234567890']
SIGNED = ['-3', '- 3', '-0', '-0.0', '-.5', '-1e3', '-2j', '-0x10', '-  7']
KEYWORDS = ['True', 'False', 'None']
PIECES = ["''", '""', "'a'", '"b"', "'''c'''", '"""d\ne"""', "r'\\n'", "R'\\d'", "b''", "b'x'", "rb'\\x'", "Rb'y'",
          "u'y'", "'\\n\\t\\\\'", "'\\x41\\u00e9'", '\'"\'', '"\'"', "'é✓'", "'a b'", "'#not a comment'",
          "'''q'r\"s'''", "b'\\x00\\xff'", "'\\''", "''''x'''",
          # raw TAB characters inside the quotes (not the \\t escape): at column 2, after text, repeated, in bytes / raw / triple
          "'\ta'", "'ab\tc\t\td'", "b'x\ty'", "r'\t\\t'", "'''t\tq\n\tr'''", "' \t '"]
Q_PIECES = ["''", '""', "'a'", '"b"', "'''c'''", '"""d\ne"""', "r'\\n'", "b''", "b'x'", "u'y'", '\'"\'', "'é'",
            "rb'\\x'", "''''x'''"]


def is_bytes_piece(p):
  i = 0
  while p[i] not in '\'"':
    i += 1
  return 'b' in p[:i].lower()


def concats(k, pieces):
  """All adjacent concatenations of 2..k pieces of one kind (str or bytes), with several separators."""
  out = []
  strs = [p for p in pieces if not is_bytes_piece(p)]
  byts = [p for p in pieces if is_bytes_piece(p)]
  for grp in (strs, byts):
    for n in range(2, k + 1):
      for t in itertools.product(grp, repeat=n):
        out.append(' '.join(t))
  # separator variants on a few
  out += ["'a''b'", "'a'  \"b\"", "'' ''", "'' '' ''", "''\"\"", "'a'\t'b'"]
  return out


def atoms(tier):
  k = 2 if tier == 'quick' else 3
  pcs = Q_PIECES if tier == 'thorough' else Q_PIECES[:10]
  return NUMS + SIGNED + KEYWORDS + PIECES + concats(k, pcs)


CORE = ['1', '-2.5', "'a'", "b'x'", 'None', 'True', "''", "'q' \"r\""]
DKEYS = ['1', "'k'", 'None', '-2', "b'k'", '(1, 2)']


# term = text for atoms, or (kind, [children]) ; dict children are (key, value) pairs
def render(term, L, depth=0):
  if isinstance(term, str):
    return term
  kind, kids = term
  op, cl = {'list': '[]', 'tuple': '()', 'dict': '{}'}[kind]
  if kind == 'dict':
    items = [render(k, L, depth + 1) + L['colon'] + render(v, L, depth + 1) for k, v in kids]
  else:
    items = [render(k, L, depth + 1) for k in kids]
  if L.get('neg_break'):
    items = [('-' + L['neg_break'] + it[1:].lstrip()) if it.startswith('-') else it for it in items]
  n = len(items)
  trailing = ',' if (kind == 'tuple' and n == 1) else (L.get('trailing', '') if n else '')
  if L.get('elem_comment') and n:
    if n > 1:
      body = items[0] + ', # c\n ' + L['sep'].join(items[1:]) + trailing
    else:
      body = items[0] + trailing.strip() + ' # c\n'
  else:
    body = L['sep'].join(items) + trailing
  return op + L['open'] + body + L['close'] + cl


LAYOUTS = [
    ('compact', dict(open='', close='', sep=',', colon=':')),
    ('spaced', dict(open=' ', close=' ', sep=' , ', colon=' : ')),
    ('trailing_comma', dict(open='', close='', sep=', ', colon=': ', trailing=',')),
    ('trailing_comma_sp', dict(open='', close='', sep=', ', colon=': ', trailing=' , ')),
    ('nl_after_open', dict(open='\n    ', close='', sep=', ', colon=': ')),
    ('nl_before_close', dict(open='', close='\n', sep=', ', colon=': ')),
    ('one_per_line', dict(open='\n  ', close='\n', sep=',\n  ', colon=': ', trailing=',')),
    ('elem_comment', dict(open='', close='', sep=', ', colon=': ', elem_comment=True)),
    ('comment_after_open', dict(open=' # c\n ', close='', sep=', ', colon=': ')),
    ('comment_before_close', dict(open='', close=' # c\n', sep=', ', colon=':\n ', trailing=',')),
    ('comment_after_colon', dict(open='', close='', sep=', ', colon=':  # c\n   ')),
    ('comment_after_colon_nl', dict(open='\n', close='\n', sep=',  # c\n', colon=': # k\n\n # more\n ', trailing=',')),
    ('comment_after_comma', dict(open='', close='', sep=',  # c\n  ', colon=': ')),
    ('neg_break', dict(open='', close='', sep=', ', colon=': ', neg_break='\n  ')),
    ('neg_space', dict(open='', close='', sep=',', colon=':', neg_break=' ')),
    ('blank_lines', dict(open='\n\n', close='\n\n', sep=',\n\n', colon=': ')),
    ('tabs', dict(open='\t', close='\t', sep=',\t', colon=':\t')),
]


def container_terms(tier):
  """Container terms to depth D, width W over representative pools (returned simplest-first)."""
  W = 2 if tier == 'quick' else 3
  D = 2 if tier == 'quick' else 3

  def level(pool, dvals):
    out = []
    for n in range(W + 1):
      for t in itertools.product(pool, repeat=n):
        out.append(('list', list(t)))
        out.append(('tuple', list(t)))
    for n in range(W + 1):
      for ks in itertools.permutations(DKEYS[:W + 1], n):
        for vs in itertools.product(dvals, repeat=n):
          out.append(('dict', list(zip(ks, vs))))
    return out
  l1 = level(CORE, CORE[:4])
  terms = list(l1)
  reps = [('list', []), ('tuple', []), ('dict', []), ('list', ['1']), ('tuple', ['1']), ('dict', [("'k'", '-2.5')]),
          ('list', ["'a'", 'None']), ('tuple', ['-2.5', "b'x'"]), ('dict', [('1', "''"), ('None', 'True')])]
  pool2 = reps + ['1', "'a'", '-2.5']
  l2 = level(pool2, reps[:6] + ['1'])
  terms += l2
  if D >= 3:
    reps3 = [('list', [reps[4]]), ('tuple', [reps[5], reps[3]]), ('dict', [('1', reps[6])]),
             ('list', [('tuple', [('list', [])])]), ('tuple', [('tuple', [('tuple', ['1'])])])]
    pool3 = reps3 + reps[:5] + ['-2.5']
    W3 = 2
    for n in range(W3 + 1):
      for t in itertools.product(pool3, repeat=n):
        terms.append(('list', list(t)))
        terms.append(('tuple', list(t)))
        if n:
          terms.append(('dict', list(zip(DKEYS, t))))
  return terms


def depth_of(t):
  if isinstance(t, str):
    return 0
  kind, kids = t
  if kind == 'dict':
    return 1 + max([max(depth_of(k), depth_of(v)) for k, v in kids] or [0])
  return 1 + max([depth_of(k) for k in kids] or [0])


# ------------------------------------------------------------------------------------ near misses
NEAR = [
    '1+2', '1 + 2', '2*3', "'a'*2", '1-2', '1 -2', '[1]+[2]', '1 if True else 2', 'not True', '1 < 2', '1 and 2',
    '1//2', '2**3', '~1', '1 | 2',
    'foo', 'nan', 'inf', 'true', 'none', 'null', 'NaN', 'x.y', 'float("nan")',
    '[x for x in [1]]', 'int(1)', 'dict()', '[1][0]', "'a'[0]", '{1, 2}', '{1}', 'lambda: 1', "f'a'", "f'{1}'",
    '+1', '--1', "-'a'", '-None', '-[1]', '-(1)', '-()', '- -1', '-+1', '-True', '-False', '- True', '-\\\nTrue',
    '-@c02.g', '-@c02.g()', '- @c02.g()', '-%mac', '- %mac', '-\\\n@c02.g()',
    '[1', '(1', '{1:2', "{'a': [1, 2}", '1]', '1)', '1}', '[1)', '(1]', '{1]', '[(1])', '[[1]',
    '1 2', '[1] x', "'a' 1", '1;', "1 'a'", '[1] [2]', '(1)(2)', '{} {}', "None None", "'a' b'x'",
    "b'x' 'a'", '1 @c02.g', '@c02.g 1', '%mac 1', '@c02.g() ()', '1 = 2', '1 == 1',
    ',', '[,]', '[1,,2]', '(,)', '{1:}', '{:1}', '{1 2}', '{1:2:3}', '{1:2,,}', '[1 2]', '(1 2)', "{'a' 1}", '{1:2 3:4}',
    '1_', '0x', '1e', '1.2.3', '09', '0b2', '1__0', '1.e', '1j2', "'abc", '"a\'', "'''abc", "b'é'", "'a\nb'", '$', '?', '!',
    '`1`', '1L', '0777', "u b'x'", "ur'x'", "bu'x'", '@', '@()', '%', '@c02.g(', '@c02.g(1)', '@c02.g()()',
    '', '#only a comment', '\\',
]
POSITIONS = ['top', 'list', 'tuple', 'dict_value', 'dict_key', 'list_tail', 'nested']


def place(nm, pos):
  return {'top': nm, 'list': '[' + nm + ']', 'tuple': '(' + nm + ', 1)', 'dict_value': "{'k': " + nm + '}',
          'dict_key': '{' + nm + ': 1}', 'list_tail': '[1, ' + nm + ']', 'nested': '[(1, {2: [' + nm + ']})]'}[pos]


# positions where a given near-miss is actually a legal literal (so not a near-miss there)
def legal_python_literal(text):
  try:
    v = eval(text, {'__builtins__': {}}, {})  # pylint: disable=eval-used
  except Exception:  # pylint: disable=broad-except
    return False, None
  return True, v


def in_grammar_value(v):
  """Is v a value of the statement's literal grammar (numbers, str, bytes, bool, None, list/tuple/dict thereof)?"""
  if isinstance(v, (bool, int, float, complex, str, bytes, type(None))):
    return True
  if isinstance(v, (list, tuple)):
    return all(in_grammar_value(x) for x in v)
  if isinstance(v, dict):
    return all(in_grammar_value(k) and in_grammar_value(x) for k, x in v.items())
  return False


# ------------------------------------------------------------------------------------ oracle
def same(a, b):
  if type(a) is not type(b):
    return False
  if isinstance(a, float):
    return (a == b and math.copysign(1, a) == math.copysign(1, b)) or (a != a and b != b)
  if isinstance(a, complex):
    return same(a.real, b.real) and same(a.imag, b.imag)
  if isinstance(a, (list, tuple)):
    return len(a) == len(b) and all(same(x, y) for x, y in zip(a, b))
  if isinstance(a, dict):
    return (len(a) == len(b) and list(map(repr, a)) == list(map(repr, b)) and
            all(same(k1, k2) and same(a[k1], b[k2]) for k1, k2 in zip(a, b)))
  return a == b


ENTRIES = ['stmt', 'stmt_spaced', 'parse_value', 'block', 'list_cfg', 'stmt_comment', 'stmt_continuation',
           'scoped_stmt', 'file_like']


def parse_via(entry, text):
  """Returns the value gin stores/returns for `text` through the given entry point."""
  if entry == 'parse_value':
    return cfg.parse_value(text)
  gin.bind_parameter('c02.fn.p', SENT)
  key = 'c02.fn.p'
  if entry == 'stmt':
    gin.parse_config('c02.fn.p = ' + text)
  elif entry == 'stmt_spaced':
    gin.parse_config('\n\n  c02.fn.p=' + text + '   \n\n')
  elif entry == 'stmt_comment':
    gin.parse_config('# lead\nc02.fn.p = ' + text + '  # trailing comment\nc02.fn.q = 0')
  elif entry == 'stmt_continuation':
    gin.parse_config('c02.fn.p = \\\n    ' + text + '\n')
  elif entry == 'scoped_stmt':
    gin.bind_parameter('sc/c02.fn.p', SENT)
    gin.parse_config('sc/c02.fn.p = ' + text)
    key = 'sc/c02.fn.p'
  elif entry == 'block':
    gin.parse_config('c02.fn:\n  p = ' + text + '\n  q = 1\n')
  elif entry == 'list_cfg':
    gin.parse_config(['c02.fn.q = 2', 'c02.fn.p = ' + text, 'c02.fn.q = 3'])
  elif entry == 'file_like':
    import io
    gin.parse_config(io.StringIO('c02.fn.p = ' + text + '\n'))
  return gin.query_parameter(key)


def entries_for(text, tier):
  es = ['stmt', 'parse_value', 'block', 'stmt_comment']
  if tier == 'thorough':
    es += ['stmt_spaced', 'stmt_continuation', 'scoped_stmt', 'file_like']
  if '\n' not in text:
    es.append('list_cfg')
  return es


def check_good(text, entry, res, tags=()):
  desc = ['good', entry, text]
  try:
    exp = eval(text, {'__builtins__': {}}, {})  # pylint: disable=eval-used
  except Exception as e:  # pylint: disable=broad-except
    res.extra['harness_error'] = 'generator produced text Python rejects: %r (%r)' % (text, e)
    return
  nontrivial = not text.isdigit()
  res.case((entry, text), nontrivial)
  try:
    got = parse_via(entry, text)
    out = 'ok'
  except (SyntaxError, tokenize.TokenError) as e:
    got, out = e, 'rejected'
  except Exception as e:  # pylint: disable=broad-except
    got, out = e, 'raised:' + type(e).__name__
  res.outcome('good:' + out)
  if out != 'ok':
    res.violation('literal_rejected', 'legal literal %r via %s was %s: %r' % (text, entry, out, got), desc)
    return
  if not same(got, exp):
    res.violation('literal_wrong_value', 'literal %r via %s -> %r (%s), Python evaluates it to %r (%s)' %
                  (text, entry, got, type(got).__name__, exp, type(exp).__name__), desc)
    return
  for t in tags:
    res.w(t)


def check_bad(text, entry, res, tags=()):
  desc = ['bad', entry, text]
  res.case((entry, 'bad', text), True)
  before = gin.config_str()
  try:
    got = parse_via(entry, text)
    out = 'accepted'
  except (SyntaxError, tokenize.TokenError) as e:
    got, out = e, 'rejected'
  except Exception as e:  # pylint: disable=broad-except
    got, out = e, 'raised:' + type(e).__name__
  res.outcome('bad:' + out)
  if out == 'accepted':
    if got is SENT:
      res.violation('nearmiss_ignored', 'near-miss %r via %s raised nothing (binding left unchanged)' % (text, entry),
                    desc)
    else:
      res.violation('nearmiss_accepted', 'near-miss %r via %s yielded %r' % (text, entry, got), desc)
  elif out != 'rejected':
    res.violation('nearmiss_wrong_error', 'near-miss %r via %s raised %r, not a syntax/tokenizer error' %
                  (text, entry, got), desc)
  else:
    res.w('nearmiss_rejected')
    for t in tags:
      res.w(t)
    if entry != 'parse_value':
      try:
        cur = gin.query_parameter('c02.fn.p')
      except ValueError:
        cur = None
      # statements preceding the offending one may legitimately have been applied (C16); p itself must be unchanged
      if cur is not SENT:
        res.violation('nearmiss_changed_config', 'rejected near-miss %r via %s changed the binding to %r' %
                      (text, entry, cur), desc)


def tags_for_atom(a):
  t = []
  if a.startswith('-'):
    t.append('negative_number')
  if "'''" in a or '"""' in a:
    t.append('triple_quoted')
  if a.startswith(("b'", "rb'", "Rb'", 'b"')):
    t.append('bytes_value')
  parts = a.split(' ')
  if len(parts) > 1 and any(p in ("''", '""', "b''") for p in parts):
    t.append('concat_with_empty_piece')
  return t


# characters that str.splitlines() treats as line boundaries but the Python tokenizer does not
ODD_SEPARATORS = ['\x0b', '\x0c', '\x1c', '\x1d', '\x1e', '\x85', '\u2028', '\u2029']


def odd_separator_texts():
  for ch in ODD_SEPARATORS:
    yield "'a%sb'" % ch
    yield '"""x%sy\nz"""' % ch
    yield "['p', 'q%sr', 1]" % ch
    yield "[1,  # comment with %s inside\n 2]" % ch
    yield "{'k%s': ('v',)}" % ch
    yield "'a' '%s' 'b'" % ch


def gen_cases(tier):
  """Yields (kind, text, tags) for all in-grammar and near-miss texts, simplest first."""
  A = atoms(tier)
  for a in A:
    yield ('good', a, tags_for_atom(a))
  for t in odd_separator_texts():
    yield ('good', t, ['odd_line_separator_char'])
  # every atom as the single / second element of each container kind, in every layout
  for lname, L in LAYOUTS:
    tags = []
    if 'comment' in lname:
      tags.append('comment_in_brackets')
    if '\n' in (L['open'] + L['close'] + L['sep']) or L.get('elem_comment'):
      tags.append('newline_in_brackets')
    if L.get('trailing'):
      tags.append('trailing_comma')
    sub = A if lname in ('compact', 'one_per_line', 'elem_comment') or tier == 'thorough' else A[:80]
    for a in sub:
      ta = tags + tags_for_atom(a)
      yield ('good', render(('list', [a]), L), ta)
      yield ('good', render(('tuple', [a]), L), ta + ['one_tuple'])
      yield ('good', render(('list', ['0', a]), L), ta)
      if not a.startswith(('[', '{')):
        yield ('good', render(('dict', [("'k'", a)]), L), ta)
        try:
          hash(eval(a, {'__builtins__': {}}, {}))  # pylint: disable=eval-used
          yield ('good', render(('dict', [(a, '1')]), L), ta)
        except TypeError:
          pass
    for t in container_terms(tier):
      d = depth_of(t)
      yield ('good', render(t, L), tags + (['nested_depth2'] if d >= 2 else []) +
             (['one_tuple'] if t[0] == 'tuple' and len(t[1]) == 1 else []))
  # dict literals whose keys repeat or compare equal (1 == 1.0 == True): Python keeps the first key and the LAST value
  for t in ["{'k': 1, 'k': 2}", "{1: 'int', 1.0: 'float', True: 'bool'}", "{'a': 1, 'b': 2, 'a': 3}", "{0: 'a', False: 'b'}",
            "{'k': [1], 'k': (2,)}", "[{'k': 1, 'k': 2}]", "{'o': {'k': 1, 'k': None}}", "{(1, 2): 'a', (1, 2): 'b'}",
            "{'': 1, '': 2}", "{b'k': 1, b'k': 0}", "{1: 1,\n 1: 2}", "{None: 1, None: 2}"]:
    yield ('good', t, ['dict_repeated_key'])
  # parenthesised single value is the value itself
  for a in ['1', "'a'", '-2.5', '[1]', "'a' 'b'", '(1)', '((1,))', '( \n 1 \n )']:
    yield ('good', '(' + a + ')', [])
  # mixed str / bytes concatenations (every pair and every triple with both kinds, empties included) are rejected
  pcs = Q_PIECES if tier == 'thorough' else Q_PIECES[:10] + ["rb'\\x'"]
  strs = [p for p in pcs if not is_bytes_piece(p)]
  byts = [p for p in pcs if is_bytes_piece(p)]
  mixed = [a + ' ' + b for a in strs for b in byts] + [b + ' ' + a for a in strs for b in byts]
  mixed += [' '.join(t) for t in itertools.product(pcs[:6] + byts[:2], repeat=3)
            if len({is_bytes_piece(x) for x in t}) == 2]
  for text in mixed:
    for pos in ('top', 'list', 'dict_value'):
      yield ('bad', place(text, pos), ['mixed_str_bytes_rejected'])
  for nm in NEAR:
    for pos in POSITIONS:
      text = place(nm, pos)
      legal, v = legal_python_literal(text)
      forced = nm.replace('\\\n', '').replace(' ', '') in ('-True', '-False')   # arithmetic on a keyword, not a literal
      if legal and in_grammar_value(v) and pos != 'top' and not forced:
        # e.g. '' inside a list gives the legal literal [] — not a near-miss there
        continue
      if legal and pos == 'top' and in_grammar_value(v) and nm.strip() and not set(nm) & set('+*/<~|&'):
        if nm not in ('1 -2', '1-2', '-(1)', '- -1', '--1', '-()') and not forced:
          continue
      tags = []
      if nm.lstrip('-\\\n ').startswith(('@', '%')) and nm.startswith('-'):
        tags.append('minus_before_ref_rejected')
      if nm in ('1 2', '[1] x', "'a' 1", '1;'):
        tags.append('trailing_junk_rejected')
      yield ('bad', text, tags)


NSHARDS = 64


def shards(tier):
  return list(range(NSHARDS))


def run_shard(i, tier):
  res = core.Result()
  harness.hard_reset()
  n = 0
  for idx, (kind, text, tags) in enumerate(gen_cases(tier)):
    if idx % NSHARDS != i:
      continue
    n += 1
    if kind == 'good':
      for e in entries_for(text, tier):
        check_good(text, e, res, tags)
    else:
      for e in entries_for(text, tier):
        if e == 'parse_value':
          continue  # parse_value has no end-of-statement check; the property is about binding values
        check_bad(text, e, res, tags)
    if n % 97 == 1:
      res.sample({'kind': kind, 'text': text})
    if n % 200 == 0:
      harness.hard_reset()
  harness.hard_reset()
  return res


def replay(desc):
  res = core.Result()
  harness.hard_reset()
  kind, entry, text = desc
  (check_good if kind == 'good' else check_bad)(text, entry, res)
  harness.hard_reset()
  return res
