"""C14 — includes act as in-place inclusion; files resolve through ordered locations.

A. every include tree of <= N files (all ordered tree shapes, plus repeated inclusion) x every placement of
   conflicting bindings before / after each include line, served by an in-memory reader and from real files;
   oracle: configuration == parse_config(flattened text); the returned tree mirrors structure and per-file imports;
   a missing file at every include position -> IOError naming the locations.
B. every order of every subset of 3 search locations x every subset of (location, reader) cells holding the file
   (2 in-memory readers + real directories for the default reader); oracle: first location in registration
   order ('' first), within it the first reader in registration order; absolute names bypass the locations;
   package-relative names resolve through sys.path (regular and namespace packages).
C. the multi-file entry point: every order of the files, extra bindings, finalize on/off, unknown names.
"""
import io
import itertools
import os
import shutil
import sys
import tempfile

from vf import core
from vf import harness
from vf.harness import gin, cfg

ID = 'C14'
LEVEL = 'fault_enumeration'
RULE = ('A: include trees (all ordered rooted tree shapes up to N files + repeated inclusion) x all 0/1 placements of a '
        'conflicting binding in every slot around include lines x {memory reader, real files} x missing file at every '
        'include position; B: location orders x cell subsets x readers; C: file orders x bindings x finalize flag. one '
        'evaluation = one parse compared with the flattened-text / first-match model. non-trivial = >=2 files or >=2 cells.')
ASSUMPTIONS = ['in-memory readers registered after the two default readers', 'scratch directory created per run and removed']
WITNESSES = ['later_binding_overrides_across_include', 'binding_after_include_wins', 'depth3', 'tree_mirrored',
             'imports_per_file', 'missing_include_ioerror', 'location_order', 'reader_order_within_location',
             'absolute_bypasses', 'package_relative', 'namespace_package_location', 'namespace_package_two_portions', 'location_name_joined_verbatim', 'reparse_after_failure', 'unreadable_include_is_an_error_when_lenient', 'module_is_not_a_directory', 'missing_nested_include_aborts', 'files_then_bindings_then_finalize',
             'finalize_disabled', 'unknown_default_error', 'real_files', 'repeated_inclusion', 'second_resolution_fresh', 'location_registered_twice']

MEM1, MEM2 = {}, {}
SCRATCH = [None]


class NIO(io.StringIO):
  def __init__(self, text, name):
    super().__init__(text)
    self.name = name


def setup():
  @gin.configurable(module='c14')
  def f(x=None, y=None, z=None, w=None):
    return (x, y, z, w)

  @gin.configurable(module='c14')
  def g(p=None):
    return p
  gin.config.register_file_reader(lambda p: NIO(MEM1[p], p), lambda p: p in MEM1)
  gin.config.register_file_reader(lambda p: NIO(MEM2[p], p), lambda p: p in MEM2)
  global F
  F = f


def scratch():
  if SCRATCH[0] is None:
    SCRATCH[0] = tempfile.mkdtemp(prefix='c14_', dir=os.environ.get('VERIF_SCRATCH') or None)
  return SCRATCH[0]


def cleanup():
  if SCRATCH[0] and os.path.isdir(SCRATCH[0]):
    shutil.rmtree(SCRATCH[0], ignore_errors=True)
  SCRATCH[0] = None


def bound(tier):
  return 'A: trees of <=%d files; B: 3 locations (all orders of all subsets) x 2 memory readers + real dirs; C: 3 files' % (
      4 if tier == 'quick' else 5)


# ------------------------------------------------------------------------------------ A: include trees
def tree_shapes(n):
  """All ordered rooted trees with n nodes as nested lists of children; node ids assigned in preorder."""
  def forests(k):
    # all ordered forests with k nodes
    if k == 0:
      yield []
      return
    for first in range(1, k + 1):
      for t in trees(first):
        for rest in forests(k - first):
          yield [t] + rest

  def trees(k):
    for f in forests(k - 1):
      yield f
  return list(trees(n))


def label(shape):
  """-> dict id -> list of child ids (preorder numbering), depth."""
  kids = {}
  counter = [0]

  def walk(node, d):
    i = counter[0]
    counter[0] += 1
    kids[i] = []
    dm = d
    for ch in node:
      ci, cd = walk(ch, d + 1)
      kids[i].append(ci)
      dm = max(dm, cd)
    return i, dm
  _, depth = walk(shape, 1)
  return kids, depth


IMPORTS = {1: 'import json', 2: 'from os import path', 3: 'import os.path as osp'}


def file_texts(kids, slots, repeat=None, missing=None):
  """slots: dict (file id, slot index) -> bool (conflicting binding on c14.f.x present).  Returns id -> text."""
  texts = {}
  for i, ch in kids.items():
    lines = []
    if i in IMPORTS:
      lines.append(IMPORTS[i])
    lines.append("c14.f.%s = 'own%d'" % ('yzw'[i % 3], i))
    children = list(ch)
    if repeat is not None and repeat[0] == i:
      children.append(repeat[1])
    for k, c in enumerate(children):
      if slots.get((i, k)):
        lines.append("c14.f.x = 'f%d.s%d'" % (i, k))
      lines.append("include 'f%d.gin'" % c)
    if slots.get((i, len(children))):
      lines.append("c14.f.x = 'f%d.s%d'" % (i, len(children)))
    texts[i] = '\n'.join(lines) + '\n'
  if missing is not None:
    texts.pop(missing, None)
  return texts


def flatten(texts, i):
  out = []
  for line in texts[i].splitlines():
    if line.startswith('include '):
      c = int(line.split("'f")[1].split('.gin')[0])
      out.append(flatten(texts, c))
    else:
      out.append(line)
  return '\n'.join(out)


def expected_tree(texts, i):
  imports, includes = [], []
  for line in texts[i].splitlines():
    if line.startswith('include '):
      c = int(line.split("'f")[1].split('.gin')[0])
      includes.append(expected_tree(texts, c))
    elif line.startswith('import '):
      imports.append(line.split()[1])
    elif line.startswith('from '):
      p = line.split()
      imports.append(p[1] + '.' + p[3])
  return ('f%d.gin' % i, imports, includes)


def tree_of(result):
  return (result.filename, list(result.imports), [tree_of(r) for r in result.includes])


def slot_keys(kids, repeat):
  keys = []
  for i, ch in kids.items():
    n = len(ch) + (1 if repeat is not None and repeat[0] == i else 0)
    keys += [(i, k) for k in range(n + 1)]
  return keys


def run_tree_case(case, res):
  shape_i, n, slots_mask, repeat, medium, missing = case
  shape = tree_shapes(n)[shape_i]
  kids, depth = label(shape)
  rep = tuple(repeat) if repeat else None
  keys = slot_keys(kids, rep)
  slots = {k: bool(slots_mask >> j & 1) for j, k in enumerate(keys)}
  texts = file_texts(kids, slots, rep, missing)
  full = file_texts(kids, slots, rep, None)
  desc = list(case)
  res.case(tuple(map(repr, case)), n >= 2)
  harness.hard_reset()
  MEM1.clear()
  MEM2.clear()
  if medium == 'memory':
    for i, t in texts.items():
      MEM1['f%d.gin' % i] = t
    root = 'f0.gin'
    cwd = None
  else:
    d = os.path.join(scratch(), 'tree')
    shutil.rmtree(d, ignore_errors=True)
    os.makedirs(d)
    for i, t in texts.items():
      with open(os.path.join(d, 'f%d.gin' % i), 'w') as fh:
        fh.write(t)
    gin.add_config_file_search_path(d)
    root = 'f0.gin'
  try:
    result = gin.parse_config_file(root)
    out = 'ok'
  except IOError as e:
    result, out = e, 'IOError'
  except Exception as e:  # pylint: disable=broad-except
    result, out = e, type(e).__name__
  res.outcome('tree:%s:%s' % (medium, out))
  if missing is not None:
    if out != 'IOError':
      res.violation('missing_include_not_ioerror', '%r: missing f%d.gin -> %s %r' % (desc, missing, out, result), desc)
      return
    msg = str(result)
    if ('f%d.gin' % missing) not in msg or 'Searched config paths' not in msg or repr(list(cfg._LOCATION_PREFIXES)) not in msg:
      res.violation('missing_include_message', '%r: IOError does not name the file / locations searched: %s' %
                    (desc, msg[:300]), desc)
      return
    res.w('missing_include_ioerror')
    return
  if out != 'ok':
    res.violation('tree_parse_failed', '%r: %s %r' % (desc, out, result), desc)
    return
  got_cfg = gin.config_str()
  got_tree = tree_of(result)
  got_x = F()
  harness.hard_reset()
  gin.parse_config(flatten(full, 0))
  want_cfg = gin.config_str()
  want_x = F()
  if got_cfg != want_cfg or got_x != want_x:
    res.violation('include_not_inplace', '%r: configuration after parsing the include tree:\n%s\n-- flattened text gives:\n'
                  '%s\n-- files: %r' % (desc, got_cfg, want_cfg, full), desc)
    return
  exp_tree = expected_tree(full, 0)
  if got_tree != exp_tree:
    res.violation('returned_tree', '%r: returned %r, expected %r' % (desc, got_tree, exp_tree), desc)
    return
  res.w('tree_mirrored')
  if any(t[1] for t in _walk(exp_tree)):
    res.w('imports_per_file')
  if sum(slots.values()) >= 2:
    res.w('later_binding_overrides_across_include')
  if any(v and k[1] > 0 for k, v in slots.items()):
    res.w('binding_after_include_wins')
  if depth >= 3:
    res.w('depth3')
  if medium == 'real':
    res.w('real_files')
  if rep:
    res.w('repeated_inclusion')


def _walk(t):
  yield t
  for c in t[2]:
    yield from _walk(c)


def tree_cases(tier):
  nmax = 4 if tier == 'quick' else 5
  for n in range(1, nmax + 1):
    shapes = tree_shapes(n)
    for si, shape in enumerate(shapes):
      kids, _ = label(shape)
      reps = [None]
      if n >= 2:
        reps.append((0, n - 1))            # root includes the last file once more, at the end
      if n >= 3:
        reps.append((1, n - 1))
      for rep in reps:
        if rep is not None and (rep[1] == rep[0] or rep[1] in _ancestors(kids, rep[0]) or rep[1] == 0):
          continue
        keys = slot_keys(kids, rep)
        nmask = 1 << len(keys)
        masks = range(nmask) if len(keys) <= (8 if tier == 'quick' else 10) else \
            [m for m in range(nmask) if bin(m).count('1') <= 3 or bin(m).count('0') <= 1]
        for mask in masks:
          for medium in ('memory', 'real'):
            if medium == 'real' and (mask % 5 != 0):
              continue
            yield ['tree', si, n, mask, list(rep) if rep else None, medium, None]
      for missing in range(1, n):
        yield ['tree', si, n, (1 << len(slot_keys(kids, None))) - 1, None, 'memory', missing]


def _ancestors(kids, i):
  par = {c: p for p, cs in kids.items() for c in cs}
  out = set()
  while i in par:
    i = par[i]
    out.add(i)
  return out


# ------------------------------------------------------------------------------------ B: resolution
LOCS = ['locA', 'locB', 'locC']


def run_resolve_case(case, res):
  """case = ['resolve', registration order (names; may repeat; '' = current directory), cells [[location, reader]]]"""
  _, order, cells = case
  desc = list(case)
  harness.hard_reset()
  MEM1.clear()
  MEM2.clear()
  base = os.path.join(scratch(), 'res')
  shutil.rmtree(base, ignore_errors=True)
  os.makedirs(base)

  def prefix(name):
    return '' if name == '' else os.path.join(base, name)
  # a registered location is a prefix offered to every reader: only the locations that hold something on disk exist there
  for name in set(order) - {''}:
    if any(n == name and r in ('real', 'dir') for n, r in cells):
      os.makedirs(prefix(name))
    else:
      res.w('location_not_on_disk')
  for name in order:
    gin.add_config_file_search_path(prefix(name))
  locs = [''] + list(order)                      # registration order, current directory first
  res.case(tuple(map(repr, case)), len(cells) >= 2)
  present = {}
  for (name, reader) in cells:
    if name not in locs or (name == '' and reader in ('real', 'dir')):
      continue                                   # the current directory is not written to
    path = os.path.join(prefix(name), 'cfg.gin')
    if reader == 'dir':
      # a DIRECTORY of that name in this location: nothing a reader can read, resolution moves on
      if [name, 'real'] not in [list(c) for c in cells]:
        os.makedirs(path)
        res.w('directory_named_like_the_file')
      continue
    text = "c14.f.x = 'cell:%s:%s'\n" % (name, reader)
    if reader == 'real':
      os.makedirs(os.path.dirname(path), exist_ok=True)
      with open(path, 'w') as fh:
        fh.write(text)
    elif reader == 'm1':
      MEM1[path] = text
    else:
      MEM2[path] = text
    present[(name, reader)] = path

  def winner():
    for name in locs:
      for reader in ('real', 'm1', 'm2'):
        if (name, reader) in present:
          return (name, reader)
    return None

  def resolve():
    try:
      gin.parse_config_file('cfg.gin')
      return F()[0], 'ok'
    except IOError as e:
      return e, 'IOError'
    except Exception as e:  # pylint: disable=broad-except
      return e, type(e).__name__
  got, out = resolve()
  res.outcome('resolve:' + out)
  first = winner()
  if first is None:
    if out != 'IOError':
      res.violation('missing_file_not_ioerror', '%r: nothing readable -> %s %r' % (desc, out, got), desc)
    elif repr([prefix(n) for n in locs]) not in str(got):
      res.violation('missing_file_message', '%r: IOError does not list the locations %r: %s' %
                    (desc, [prefix(n) for n in locs], got), desc)
    elif gin.config_str() != '':
      res.violation('missing_file_applied_something', '%r: config not empty after IOError' % (desc,), desc)
    return
  want = 'cell:%s:%s' % first
  if out != 'ok' or got != want:
    res.violation('resolution_order', '%r: registration order %r, cells present %r: got %r, expected %r' %
                  (desc, locs, sorted(present), got, want), desc)
    return
  # second resolution in the same process after the winning cell disappeared: nothing may be remembered
  path = present.pop(first)
  if first[1] == 'real':
    os.remove(path)
  elif first[1] == 'm1':
    del MEM1[path]
  else:
    del MEM2[path]
  cfg._CONFIG.clear()
  got2, out2 = resolve()
  nxt = winner()
  want2 = ('cell:%s:%s' % nxt) if nxt else None
  if (nxt and (out2 != 'ok' or got2 != want2)) or (not nxt and out2 != 'IOError'):
    res.violation('resolution_after_removal', '%r: after removing the winning cell %r the second parse gave %s %r, '
                  'expected %r' % (desc, first, out2, got2, want2 or 'IOError'), desc)
    return
  res.w('second_resolution_fresh')
  if len({n for n, _ in cells if n in locs}) >= 2:
    res.w('location_order')
  if sum(1 for n, _ in cells if n == first[0]) >= 2:
    res.w('reader_order_within_location')
  if len(set(order)) < len(order) or '' in order:
    res.w('location_registered_twice')


def resolve_cases(tier):
  orders = []
  for k in range(0, 4):
    orders += [list(o) for o in itertools.permutations(LOCS, k)]
  # a location registered again later keeps its first position; the current directory stays first
  orders += [['locA', 'locB', 'locA'], ['locB', 'locA', 'locB'], ['locA', 'locA', 'locB'], ['locA', '', 'locB'],
             ['locA', ''], ['locB', 'locA', 'locA', 'locB'], ['locA', 'locB', 'locC', 'locA']]
  for order in orders:
    names = [''] + sorted(set(order) - {''})
    cells = [(n, r) for n in names for r in ('real', 'm1', 'm2', 'dir') if not (n == '' and r in ('real', 'dir'))]
    if len(cells) <= 10:
      subsets = [c for n in range(len(cells) + 1) for c in itertools.combinations(cells, n)]
    else:
      sizes = (0, 1, 2, len(cells)) if tier == 'quick' else (0, 1, 2, 3, len(cells))
      subsets = [c for n in sizes for c in itertools.combinations(cells, n)]
    for cs in subsets:
      yield ['resolve', list(order), [list(c) for c in cs]]


def run_special_case(case, res):
  kind = case[1]
  desc = list(case)
  harness.hard_reset()
  MEM1.clear()
  MEM2.clear()
  res.case(tuple(case), True)
  base = os.path.join(scratch(), 'sp_' + kind)
  shutil.rmtree(base, ignore_errors=True)
  os.makedirs(base)
  old_cwd, old_path = os.getcwd(), list(sys.path)
  try:
    if kind in ('absolute_present', 'absolute_missing'):
      gin.add_config_file_search_path(os.path.join(base, 'locA'))
      os.makedirs(os.path.join(base, 'locA'))
      ap = os.path.join(base, 'abs.gin')
      if kind == 'absolute_present':
        with open(ap, 'w') as fh:
          fh.write("c14.f.x = 'absolute'\n")
        gin.parse_config_file(ap)
        if F()[0] != 'absolute':
          res.violation('absolute_not_read', '%r' % (desc,), desc)
        else:
          res.w('absolute_bypasses')
      else:
        try:
          gin.parse_config_file(ap)
          res.violation('absolute_missing_no_error', '%r' % (desc,), desc)
        except IOError as e:
          if "['']" not in str(e):
            res.violation('absolute_searched_locations', '%r: absolute name searched the locations: %s' % (desc, e), desc)
          else:
            res.w('absolute_bypasses')
    elif kind in ('package_found_after_path_extended', 'package_moved_on_path'):
      # the Python path changes between two resolutions of one package-relative name (in one process): each resolution
      # sees the path as it is then
      pk = 'c14pkg_%s' % kind
      for root, tag in (('rootA', 'A'), ('rootB', 'B')):
        d = os.path.join(base, root, pk)          # (a top-level package: resolving the name does not import it)
        os.makedirs(d)
        open(os.path.join(d, '__init__.py'), 'w').close()
        with open(os.path.join(d, 'a.gin'), 'w') as fh:
          fh.write("c14.f.x = 'pkg%s'\ninclude '%s/b.gin'\n" % (tag, pk))
        with open(os.path.join(d, 'b.gin'), 'w') as fh:
          fh.write("c14.f.y = 'pkg%s_b'\n" % tag)
      name = '%s/a.gin' % pk
      if kind == 'package_found_after_path_extended':
        try:
          gin.parse_config_file(name)
          first = 'ok'
        except IOError:
          first = 'IOError'
        sys.path.insert(0, os.path.join(base, 'rootA'))
        want = ('pkgA', 'pkgA_b')
      else:
        sys.path.insert(0, os.path.join(base, 'rootA'))
        gin.parse_config_file(name)
        first = 'ok' if F()[:2] == ('pkgA', 'pkgA_b') else repr(F())
        sys.path.remove(os.path.join(base, 'rootA'))
        sys.path.insert(0, os.path.join(base, 'rootB'))
        gin.clear_config()
        want = ('pkgB', 'pkgB_b')
      import importlib  # pylint: disable=import-outside-toplevel
      importlib.invalidate_caches()
      try:
        gin.parse_config_file(name)
        got = F()[:2]
      except Exception as e:  # pylint: disable=broad-except
        got = 'raised %r' % (e,)
      if first != ('IOError' if kind == 'package_found_after_path_extended' else 'ok') or got != want:
        res.violation('package_relative_wrong', '%r: first resolution %s; after the Python path changed: %r, expected %r' %
                      (desc, first, got, want), desc)
      else:
        res.w('package_relative_follows_python_path')
    elif kind in ('package_regular', 'package_nested'):
      pk = 'c14pkg_%s' % kind
      d = os.path.join(base, pk, 'configs')
      os.makedirs(d)
      open(os.path.join(base, pk, '__init__.py'), 'w').close()
      open(os.path.join(d, '__init__.py'), 'w').close()
      with open(os.path.join(d, 'a.gin'), 'w') as fh:
        fh.write("c14.f.x = 'pkg'\n" + ("include '%s/configs/b.gin'\n" % pk if kind == 'package_nested' else ''))
      with open(os.path.join(d, 'b.gin'), 'w') as fh:
        fh.write("c14.f.y = 'pkg_b'\n")
      sys.path.insert(0, base)
      try:
        gin.parse_config_file('%s/configs/a.gin' % pk)
        r = F()
        if r[0] != 'pkg' or (kind == 'package_nested' and r[1] != 'pkg_b'):
          res.violation('package_relative_wrong', '%r: got %r' % (desc, r), desc)
        else:
          res.w('package_relative')
      except Exception as e:  # pylint: disable=broad-except
        res.violation('package_relative_failed', '%r: %r' % (desc, e), desc)
    elif kind in ('namespace_location_missing', 'namespace_location_later', 'namespace_location_present'):
      # a plain directory (no __init__.py) that is reachable through sys.path is a namespace package
      os.makedirs(os.path.join(base, 'nsconfigs'))
      os.makedirs(os.path.join(base, 'later'))
      sys.path.insert(0, base)
      os.chdir(base)
      gin.add_config_file_search_path('nsconfigs')
      gin.add_config_file_search_path(os.path.join(base, 'later'))
      if kind == 'namespace_location_later':
        with open(os.path.join(base, 'later', 'n.gin'), 'w') as fh:
          fh.write("c14.f.x = 'later'\n")
      if kind == 'namespace_location_present':
        with open(os.path.join(base, 'nsconfigs', 'n.gin'), 'w') as fh:
          fh.write("c14.f.x = 'ns'\n")
      try:
        gin.parse_config_file('n.gin')
        got, out = F()[0], 'ok'
      except IOError as e:
        got, out = e, 'IOError'
      except Exception as e:  # pylint: disable=broad-except
        got, out = e, type(e).__name__
      want = {'namespace_location_missing': ('IOError', None), 'namespace_location_later': ('ok', 'later'),
              'namespace_location_present': ('ok', 'ns')}[kind]
      if out != want[0] or (want[1] and got != want[1]):
        res.violation('namespace_package_location', '%r: search location that is importable as a namespace package: '
                      'got %s %r, expected %r' % (desc, out, got, want), desc)
      else:
        res.w('namespace_package_location')
    elif kind in ('earlier_copy_missing_include', 'earlier_reader_missing_include'):
      # the copy that resolves first includes a name nobody can read: the parse fails; a later copy is not a fallback
      if kind == 'earlier_copy_missing_include':
        for loc, body in (('locA', "c14.f.x = 'A'\ninclude 'c14_nobody_has_this.gin'\nc14.f.y = 'A2'\n"),
                          ('locB', "c14.f.x = 'B'\nc14.f.z = 'B2'\n")):
          os.makedirs(os.path.join(base, loc))
          with open(os.path.join(base, loc, 'm.gin'), 'w') as fh:
            fh.write(body)
          gin.add_config_file_search_path(os.path.join(base, loc))
      else:
        os.makedirs(os.path.join(base, 'locA'))
        with open(os.path.join(base, 'locA', 'm.gin'), 'w') as fh:     # read by the default (file system) reader
          fh.write("c14.f.x = 'A'\ninclude 'c14_nobody_has_this.gin'\n")
        gin.add_config_file_search_path(os.path.join(base, 'locA'))
        MEM1[os.path.join(base, 'locA', 'm.gin')] = "c14.f.x = 'M1'\nc14.f.z = 'M1z'\n"   # a later reader's copy
      try:
        gin.parse_config_file('m.gin')
        out = 'accepted'
      except IOError:
        out = 'IOError'
      except Exception as e:  # pylint: disable=broad-except
        out = type(e).__name__
      r = F()
      if out != 'IOError' or r[2] is not None or r[1] is not None:
        res.violation('include_not_inplace', '%r: the first readable copy includes a name nobody can read: parse %s, '
                      'f() = %r (nothing of a later copy may be applied, the statement after the include neither)' %
                      (desc, out, r), desc)
      else:
        res.w('missing_nested_include_aborts')
    elif kind in ('reparse_after_failed_include', 'reparse_after_semantic_error'):
      # a parse that failed inside a file must not poison later parses of the very same files
      MEM1['c14r_root.gin'] = "c14.f.x = 'root'\ninclude 'c14r_mid.gin'\n"
      MEM1['c14r_mid.gin'] = "c14.f.y = 'mid'\ninclude 'c14r_leaf.gin'\n"
      if kind == 'reparse_after_semantic_error':
        MEM1['c14r_leaf.gin'] = "c14.f.z = 'leaf'\nc14.no_such_configurable.p = 1\n"
      first = 'ok'
      try:
        gin.parse_config_file('c14r_root.gin')
      except IOError:
        first = 'IOError'
      except ValueError:
        first = 'ValueError'
      MEM1['c14r_leaf.gin'] = "c14.f.z = 'leaf'\n"      # repaired / created
      try:
        gin.parse_config_file('c14r_root.gin')
        second = 'ok'
      except Exception as e:  # pylint: disable=broad-except
        second = 'raised %r' % (e,)
      r = F()
      want_first = 'IOError' if kind == 'reparse_after_failed_include' else 'ValueError'
      if first != want_first or second != 'ok' or r[:3] != ('root', 'mid', 'leaf'):
        res.violation('include_not_inplace', '%r: first parse %s (expected %s), second parse of the repaired tree %s, f() = %r'
                      % (desc, first, want_first, second, r), desc)
      else:
        res.w('reparse_after_failure')
    elif kind.startswith('skip_list_in_included_file'):
      # the include tree behaves like the flattened text, also in what skip_unknown covers: a name the list does not
      # cover is an error at any depth, a listed one is skipped at any depth
      form = kind.rsplit('_', 1)[1]
      skip = {'list': ['c14optional'], 'tuple': ('c14optional',), 'set': {'c14optional'}}[form]
      MEM1['c14s_root.gin'] = "c14.f.x = 'root'\ninclude 'c14s_mid.gin'\n"
      MEM1['c14s_mid.gin'] = "c14optional.p = 1\ninclude 'c14s_leaf.gin'\n"
      outs = []
      for leaf in ("c14optional.q = 2\nc14.f.y = 'leaf'\n", "c14.f.y = 'leaf'\nc14mystery.r = 3\n",
                   "c14.f.y = @c14mystery_ref()\n"):
        harness.hard_reset()
        MEM1['c14s_leaf.gin'] = leaf
        def seen():
          try:
            return F()[:2]
          except Exception as e:  # pylint: disable=broad-except
            return 'call raised %s' % type(e).__name__
        try:
          gin.parse_config_file('c14s_root.gin', skip_unknown=skip)
          outs.append(('ok', seen()))
        except Exception as e:  # pylint: disable=broad-except
          outs.append((type(e).__name__, seen()))
      want = [('ok', ('root', 'leaf')), ('ValueError', ('root', 'leaf')), ('ValueError', ('root', None))]
      if outs != want:
        res.violation('lenient_tree_differs_from_flat_text', '%r: skip_unknown=%r through two includes: %r, the flattened text '
                      'gives %r' % (desc, skip, outs, want), desc)
      else:
        res.w('skip_list_same_at_every_depth')
    elif kind.startswith('unreadable_include_lenient'):
      # lenient parsing (skip_unknown) is about unknown configurables and modules, not about files nobody can read
      skip = {'unreadable_include_lenient_true': True, 'unreadable_include_lenient_list': ['c14.nothing'],
              'unreadable_include_lenient_nested': True, 'unreadable_include_lenient_string': True}[kind]
      MEM1['c14u_root.gin'] = "c14.f.x = 'root'\ninclude 'c14u_mid.gin'\nc14.f.w = 'after'\n"
      MEM1['c14u_mid.gin'] = ("c14.f.y = 'mid'\n" if kind.endswith('nested') else '') + "include 'c14u_nobody_has_this.gin'\n"
      if not kind.endswith('nested'):
        MEM1['c14u_root.gin'] = "c14.f.x = 'root'\ninclude 'c14u_nobody_has_this.gin'\nc14.f.w = 'after'\n"
      try:
        if kind.endswith('string'):
          gin.parse_config("c14.f.x = 'root'\ninclude 'c14u_nobody_has_this.gin'\nc14.f.w = 'after'\n", skip_unknown=skip)
        else:
          gin.parse_config_file('c14u_root.gin', skip_unknown=skip)
        out = 'accepted'
      except IOError:
        out = 'IOError'
      except Exception as e:  # pylint: disable=broad-except
        out = type(e).__name__
      r = F()
      if out != 'IOError' or r[3] is not None:
        res.violation('missing_file_message', '%r: an include nobody can read under skip_unknown=%r: parse %s, f() = %r' %
                      (desc, skip, out, r), desc)
      else:
        res.w('unreadable_include_is_an_error_when_lenient')
    elif kind in ('location_with_double_slash', 'symlinked_location_dotdot'):
      # the name offered to the readers is location + '/' + name exactly as written: no textual "normalisation"
      if kind == 'location_with_double_slash':
        os.makedirs(os.path.join(base, 'fallback'))
        with open(os.path.join(base, 'fallback', 'base.gin'), 'w') as fh:
          fh.write("c14.f.x = 'fallback directory'\n")
        gin.add_config_file_search_path('mem://store/cfg')
        gin.add_config_file_search_path(os.path.join(base, 'fallback'))
        MEM1['mem://store/cfg/base.gin'] = "c14.f.x = 'remote store'\ninclude 'mem://store/cfg/extra.gin'\n"
        MEM1['mem://store/cfg/extra.gin'] = "c14.f.y = 'remote extra'\n"
        name, want = 'base.gin', ('remote store', 'remote extra')
      else:
        os.makedirs(os.path.join(base, 'releases', 'v2', 'conf'))
        os.makedirs(os.path.join(base, 'deploy'))
        with open(os.path.join(base, 'releases', 'v2', 'common.gin'), 'w') as fh:
          fh.write("c14.f.x = 'release common'\n")
        with open(os.path.join(base, 'deploy', 'common.gin'), 'w') as fh:
          fh.write("c14.f.x = 'decoy next to the link'\n")
        with open(os.path.join(base, 'releases', 'v2', 'conf', 'main.gin'), 'w') as fh:
          fh.write("include '../common.gin'\nc14.f.y = 'main'\n")
        os.symlink(os.path.join(base, 'releases', 'v2', 'conf'), os.path.join(base, 'deploy', 'current'))
        gin.add_config_file_search_path(os.path.join(base, 'deploy', 'current'))
        name, want = 'main.gin', ('release common', 'main')
      try:
        gin.parse_config_file(name)
        r = F()
        got = (r[0], r[1])
      except Exception as e:  # pylint: disable=broad-except
        got = 'raised %r' % (e,)
      if got != want:
        res.violation('resolution_order', '%r: got %r, expected %r' % (desc, got, want), desc)
      else:
        res.w('location_name_joined_verbatim')
    elif kind in ('module_as_directory', 'builtin_module_as_directory'):
      # the directory part of a package-relative name must be a package: a plain module (or a built-in one) has no
      # directory of its own, so nothing can be read "inside" it
      if kind == 'module_as_directory':
        pk = 'c14pkg_modasdir'
        os.makedirs(os.path.join(base, pk))
        open(os.path.join(base, pk, '__init__.py'), 'w').close()
        open(os.path.join(base, pk, 'mod.py'), 'w').close()
        with open(os.path.join(base, pk, 'foo.gin'), 'w') as fh:
          fh.write("c14.f.x = 'next to the module'\n")
        sys.path.insert(0, base)
        name = pk + '/mod/foo.gin'
      else:
        with open(os.path.join(base, 'foo.gin'), 'w') as fh:
          fh.write("c14.f.x = 'current directory'\n")
        os.chdir(base)
        name = 'sys/foo.gin'
      try:
        gin.parse_config_file(name)
        out = 'accepted'
      except IOError:
        out = 'IOError'
      except Exception as e:  # pylint: disable=broad-except
        out = type(e).__name__
      if out != 'IOError' or F()[0] is not None:
        res.violation('resolution_order', '%r: %r names no readable file (there is no such directory), yet parse: %s, '
                      'f() = %r' % (desc, name, out, F()), desc)
      else:
        res.w('module_is_not_a_directory')
    elif kind.startswith('namespace_two_portions'):
      # a PEP 420 namespace package spread over two sys.path entries; the file may live in either portion
      pk = 'c14ns_' + kind
      for portion, fname, val in (('p1', 'first.gin', 'first'), ('p2', 'second.gin', 'second')):
        d = os.path.join(base, portion, pk, 'conf')
        os.makedirs(d)
        with open(os.path.join(d, fname), 'w') as fh:
          fh.write("c14.f.x = '%s'\n" % val)
      with open(os.path.join(base, 'p1', pk, 'conf', 'inc.gin'), 'w') as fh:
        fh.write("include '%s/conf/second.gin'\nc14.f.y = 'inc'\n" % pk)
      sys.path[0:0] = [os.path.join(base, 'p1'), os.path.join(base, 'p2')]
      import importlib  # pylint: disable=import-outside-toplevel
      importlib.invalidate_caches()
      name, want = {'namespace_two_portions_first': ('first.gin', ('first', None)),
                    'namespace_two_portions_second': ('second.gin', ('second', None)),
                    'namespace_two_portions_include': ('inc.gin', ('second', 'inc'))}[kind]
      try:
        gin.parse_config_file('%s/conf/%s' % (pk, name))
        r = F()
        if (r[0], r[1]) != want:
          res.violation('package_relative_wrong', '%r: got %r, expected %r' % (desc, r, want), desc)
        else:
          res.w('namespace_package_two_portions')
      except Exception as e:  # pylint: disable=broad-except
        res.violation('package_relative_failed', '%r: a file in a later portion of a namespace package that is on the '
                      'Python path: %r' % (desc, e), desc)
    res.outcome('special:' + kind)
  finally:
    os.chdir(old_cwd)
    sys.path[:] = old_path
    for k in [k for k in sys.modules if k.startswith('c14pkg_') or k.startswith('c14ns_') or k in ('nsconfigs',)]:
      del sys.modules[k]


SPECIALS = ['absolute_present', 'absolute_missing', 'package_regular', 'package_nested',
            'package_found_after_path_extended', 'package_moved_on_path', 'namespace_location_missing',
            'namespace_location_later', 'namespace_location_present', 'namespace_two_portions_first',
            'namespace_two_portions_second', 'namespace_two_portions_include', 'earlier_copy_missing_include',
            'earlier_reader_missing_include', 'module_as_directory', 'builtin_module_as_directory',
            'location_with_double_slash', 'symlinked_location_dotdot', 'reparse_after_failed_include', 'reparse_after_semantic_error', 'unreadable_include_lenient_true',
            'unreadable_include_lenient_list', 'unreadable_include_lenient_nested', 'unreadable_include_lenient_string',
            'skip_list_in_included_file_list', 'skip_list_in_included_file_tuple', 'skip_list_in_included_file_set']


# ------------------------------------------------------------------------------------ C: multi-file entry point
def run_entry_case(case, res):
  _, order, with_bindings, finalize, unknown, skip = case
  desc = list(case)
  harness.hard_reset()
  MEM1.clear()
  MEM2.clear()
  res.case(tuple(map(repr, case)), True)
  for i in range(3):
    MEM1['e%d.gin' % i] = "c14.f.x = 'e%d'\nc14.f.%s = 'own%d'\n" % (i, 'yzw'[i], i) + (
        "c14.nosuch.q = 1\n" if unknown == 'file' and i == 1 else '')
  seen = []
  gin.config.register_finalize_hook(lambda config: seen.append(config.get(('', 'c14.f'), {}).get('x')) or None)
  files = ['e%d.gin' % i for i in order]
  bindings = (["c14.f.x = 'binding'", "c14.g.p = 1"] if with_bindings else []) + (
      ['c14.nosuch.q = 2'] if unknown == 'binding' else [])
  kwargs = {}
  if finalize is not None:
    kwargs['finalize_config'] = finalize
  if skip:
    kwargs['skip_unknown'] = True
  try:
    r = gin.parse_config_files_and_bindings(files, bindings or None, **kwargs)
    out = 'ok'
  except ValueError as e:
    r, out = e, 'ValueError'
  except Exception as e:  # pylint: disable=broad-except
    r, out = e, type(e).__name__
  res.outcome('entry:' + out)
  if unknown and not skip:
    if out != 'ValueError':
      res.violation('unknown_not_error_by_default', '%r: unknown configurable accepted by default (%s)' % (desc, out), desc)
    else:
      res.w('unknown_default_error')
    return
  if out != 'ok':
    res.violation('entry_failed', '%r: %s %r' % (desc, out, r), desc)
    return
  want_x = 'binding' if with_bindings else ('e%d' % order[-1] if order else None)
  got = F()
  if got[0] != want_x:
    res.violation('entry_order', '%r: x=%r, expected %r (files in order, then bindings)' % (desc, got[0], want_x), desc)
    return
  should_lock = finalize is not False
  if gin.config_is_locked() != should_lock:
    res.violation('entry_finalize', '%r: locked=%s, expected %s' % (desc, gin.config_is_locked(), should_lock), desc)
    return
  if should_lock and seen != [want_x]:
    res.violation('entry_finalize_order', '%r: finalize hook saw x=%r, expected %r once, after files and bindings' %
                  (desc, seen, want_x), desc)
    return
  if [t.filename for t in r] != files:
    res.violation('entry_return', '%r: returned %r' % (desc, r), desc)
    return
  res.w('files_then_bindings_then_finalize' if should_lock else 'finalize_disabled')


def entry_cases(tier):
  for k in range(0, 4):
    for order in itertools.permutations(range(3), k):
      for wb in (False, True):
        for fin in (None, True, False):
          yield ['entry', list(order), wb, fin, None, False]
  for unknown in ('file', 'binding'):
    for skip in (False, True):
      yield ['entry', [0, 1, 2], True, None, unknown, skip]
  yield ['entry_single', 'parse_config']
  yield ['entry_single', 'parse_config_file']


def run_entry_single(case, res):
  harness.hard_reset()
  MEM1.clear()
  MEM1['u.gin'] = 'c14.nosuch.q = 1\n'
  res.case(tuple(case), True)
  try:
    if case[1] == 'parse_config':
      gin.parse_config('c14.nosuch.q = 1')
    else:
      gin.parse_config_file('u.gin')
    res.violation('unknown_not_error_by_default', '%r: unknown configurable accepted by default' % (case,), list(case))
  except ValueError:
    res.w('unknown_default_error')
  res.outcome('entry_single')


def gen(tier):
  yield from tree_cases(tier)
  yield from resolve_cases(tier)
  for s in SPECIALS:
    yield ['special', s]
  yield from entry_cases(tier)


def run_case(c, res):
  if c[0] == 'tree':
    run_tree_case(c[1:], res)
  elif c[0] == 'resolve':
    run_resolve_case(c, res)
  elif c[0] == 'special':
    run_special_case(c, res)
  elif c[0] == 'entry':
    run_entry_case(c, res)
  else:
    run_entry_single(c, res)


NSH = 64


def shards(tier):
  return list(range(NSH))


def run_shard(i, tier):
  res = core.Result()
  try:
    for n, c in enumerate(gen(tier)):
      if n % NSH != i:
        continue
      try:
        run_case(c, res)
      except Exception:  # pylint: disable=broad-except
        import traceback
        res.extra['harness_error'] = traceback.format_exc() + '\ncase=%r' % (c,)
        break
      if n % 2003 == i:
        res.sample({'case': core.jsonable(c)})
  finally:
    cleanup()
    harness.hard_reset()
  return res


def replay(c):
  res = core.Result()
  try:
    run_case(c, res)
  finally:
    cleanup()
    harness.hard_reset()
  return res
