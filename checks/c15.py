"""C15 — skip_unknown drops exactly the statements that target unknown names.

E3: every statement list (<= N) over a menu mixing known / unknown targets, blocks, references to unknown
configurables (bare, evaluated, nested, inside a macro), imports of present / missing modules x every form of
skip_unknown (False, True, list / tuple / set containing or not containing the unknown names) with static
registration; a dynamic-registration menu (first parse vs already registered).
Oracle: a statement-level model of "delete exactly the statements that target unknown (and listed) names";
placeholders must raise on use and at finalize.
"""
import itertools
import os
import shutil
import sys
import tempfile

from vf import core
from vf import harness
from vf.harness import gin, cfg

ID = 'C15'
LEVEL = 'exploration'
RULE = ('statement lists len<=N over the menu x skip_unknown forms; one evaluation = one parse_config compared with the '
        'deletion model (kept bindings with placeholders by position / error for an uncovered unknown name), then use '
        'and finalize of placeholders. dynamic registration: menu x skip forms x {first parse, already registered}. '
        'non-trivial = list contains an unknown name.')
ASSUMPTIONS = ['statement menu and skip forms as in coverage', 'scratch module for dynamic registration created per run']
WITNESSES = ['known_is_per_file', 'known_from_the_import_on', 'unknown_binding_dropped', 'unknown_block_dropped', 'known_always_applied', 'unlisted_unknown_error',
             'placeholder_kept', 'placeholder_raises_on_use', 'placeholder_raises_at_finalize', 'missing_import_skipped',
             'list_form', 'set_form', 'tuple_form', 'dynamic_known_applied', 'dynamic_unknown_skipped',
             'known_reference_stays_real']

SCRATCH = [None]


def setup():
  @gin.configurable(module='c15')
  def known(a=None, b=None, c=None):
    return (a, b, c)

  @gin.configurable(module='c15')
  def g():
    return 'g'
  global KNOWN
  KNOWN = known
  d = tempfile.mkdtemp(prefix='c15_')
  SCRATCH[0] = d
  with open(os.path.join(d, 'c15mod.py'), 'w') as fh:
    fh.write('def known(a=None, b=None):\n  return (a, b)\n\ndef fn(arg=None):\n  return arg\n\ndef g():\n  return "g"\n')
  with open(os.path.join(d, 'c15late.py'), 'w') as fh:      # registers its configurable when it is imported
    fh.write('import gin\n\n@gin.configurable\ndef late_fn(a=None, b=None):\n  return (a, b)\n')
  with open(os.path.join(d, 'c15raises_ie.py'), 'w') as fh:  # exists, but raises a bare ImportError (its `name` is None)
    fh.write('raise ImportError("needs a GPU")\n')
  with open(os.path.join(d, 'c15needs_missing.py'), 'w') as fh:  # exists, imports something that does not
    fh.write('import no_such_dependency_c15\n')
  sys.path.insert(0, d)
  import atexit
  atexit.register(lambda: shutil.rmtree(d, ignore_errors=True))


def run_failing_import_case(case, res):
  """An import that fails with ImportError although the module exists (it raises one itself, or needs something missing):
  whether that counts as 'missing' is Gin's call, but the parse either skips exactly that statement or fails with the
  ImportError after the statements before it -- nothing else."""
  _, mod, sname = case
  skip = dict(SKIPS, **{'True': True, 'False': False})[sname]
  harness.hard_reset()
  res.case(tuple(case), True)
  for m in ('c15raises_ie', 'c15needs_missing'):
    sys.modules.pop(m, None)
  try:
    gin.parse_config("c15.known.a = 1\n\nimport %s\nc15.known.b = 2\n" % mod, skip_unknown=skip)
    out = 'ok'
  except ImportError:
    out = 'ImportError'
  except Exception as e:  # pylint: disable=broad-except
    out = 'other:%r' % (e,)
  got = {k: dict(v) for k, v in cfg._CONFIG.items()}
  want = {'ok': {('', 'c15.known'): {'a': 1, 'b': 2}}, 'ImportError': {('', 'c15.known'): {'a': 1}}}.get(out)
  res.outcome('failing_import:' + out.split(':')[0])
  if want is None or got != want or (not skip and out != 'ImportError'):
    res.violation('failing_import', '%r: outcome %s, config %r' % (case, out, got), case)
  else:
    res.w('failing_import_skipped_or_reported')


def run_resolved_later_case(case, res):
  """A placeholder stays a placeholder: registering the name after the lenient parse (or having it registered where this
  dynamic-registration file cannot see it) does not make the stored value resolve to something."""
  _, how, sname = case
  skip = {'True': True, 'list': ['c15later_fn', 'c15mod.known'], 'set': {'c15later_fn', 'c15mod.known'}}[sname]
  harness.hard_reset()
  res.case(tuple(case), True)

  def later_fn():
    return 'result of later_fn'
  if how == 'registered_after_parse':
    gin.parse_config("c15.known.b = [1, @c15later_fn()]\nc15.known.a = 'a'\n", skip_unknown=skip)
    gin.external_configurable(later_fn, name='c15later_fn', module='c15late_reg')
  else:
    # statically registered, but this dynamic-registration file does not import it: unknown for the file
    gin.external_configurable(later_fn, name='c15later_fn', module='c15late_reg')
    gin.parse_config(H_DYN_ + "import c15mod\nc15mod.known.b = [1, @c15later_fn()]\nc15mod.known.a = 'a'\n", skip_unknown=skip)
  try:
    target = KNOWN if how == 'registered_after_parse' else gin.get_configurable(__import__('c15mod').known)
    r = target()
    used = 'returned %r' % (r,)
  except ValueError as e:
    used = 'ValueError' if 'No configurable matching' in str(e) else 'ValueError: %s' % e
  except Exception as e:  # pylint: disable=broad-except
    used = repr(e)
  try:
    gin.finalize()
    fin = 'accepted'
  except ValueError:
    fin = 'ValueError'
  except Exception as e:  # pylint: disable=broad-except
    fin = repr(e)
  res.outcome('resolved_later:%s' % used.split(' ')[0])
  if used != 'ValueError':
    res.violation('placeholder_silently_used', '%r: the value holding the placeholder was used: %s' % (case, used), case)
  elif fin != 'ValueError':
    res.violation('placeholder_survives_finalize', '%r: finalize %s' % (case, fin), case)
  else:
    res.w('placeholder_stays_a_placeholder')


H_DYN_ = 'from __gin__ import dynamic_registration\n'


def run_include_case(case, res):
  """What skip_unknown covers does not depend on the include depth: a listed unknown is skipped, an unlisted one is an
  error, an unlisted unknown reference is an error (not a placeholder) -- exactly as in the flattened text."""
  _, leaf_kind, sname = case
  skip = {'list': ['c15optional'], 'tuple': ('c15optional',), 'set': {'c15optional'}, 'True': True}[sname]
  d = SCRATCH[0]
  leaf = {'listed_unknown': "c15optional.q = 2\nc15.known.b = 'leaf'\n",
          'unlisted_unknown': "c15.known.b = 'leaf'\nc15mystery.r = 3\n",
          'unlisted_unknown_reference': "c15.known.b = @c15mystery_ref()\n"}[leaf_kind]
  tag = 'c15i_%s_%s_%d' % (leaf_kind, sname, os.getpid())       # (cases run in parallel processes: private file names)
  for name, text in ((tag + '_root.gin', "c15.known.a = 'root'\ninclude '%s_mid.gin'\n" % tag),
                     (tag + '_mid.gin', "c15optional.p = 1\ninclude '%s_leaf.gin'\n" % tag), (tag + '_leaf.gin', leaf)):
    with open(os.path.join(d, name), 'w') as fh:
      fh.write(text)
  harness.hard_reset()
  gin.add_config_file_search_path(d)
  res.case(tuple(case), True)
  try:
    gin.parse_config_file(tag + '_root.gin', skip_unknown=skip)
    out = 'ok'
  except ValueError:
    out = 'ValueError'
  except Exception as e:  # pylint: disable=broad-except
    out = 'other:%r' % (e,)
  got = {k: {p: canon_real(v) for p, v in dd.items()} for k, dd in cfg._CONFIG.items()}
  if sname == 'True':
    want_out = 'ok'
    want = {('', 'c15.known'): {'a': 'root', 'b': P('c15mystery_ref', True) if leaf_kind.endswith('reference') else 'leaf'}}
  else:
    want_out = 'ok' if leaf_kind == 'listed_unknown' else 'ValueError'
    want = {('', 'c15.known'): {'a': 'root'} if leaf_kind.endswith('reference') else {'a': 'root', 'b': 'leaf'}}
  res.outcome('include:' + out.split(':')[0])
  if out != want_out or got != want:
    res.violation('not_exactly_the_unknown_statements', '%r: skip_unknown=%r through two includes: %s with config %r; the '
                  'flattened text gives %s with %r' % (case, skip, out, got, want_out, want), case)
  else:
    res.w('skip_list_same_at_every_include_depth')


# statement: (text, kind, target selector as written, param(s), value model, names of unknown refs inside)
P = lambda name, ev: ('PLACEHOLDER', name, ev)  # noqa: E731
STM = {
    'K': ("c15.known.a = 1", 'bind', 'c15.known', {'a': 1}, []),
    'Ks': ("s/c15.known.a = 's'", 'bind_s', 'c15.known', {'a': 's'}, []),
    'U': ("c15.unk.a = 2", 'bind', 'c15.unk', None, []),
    'Us': ("s/unk.a = 3", 'bind', 'unk', None, []),
    'U3': ("pkg.unk3.q = [1, 2]", 'bind', 'pkg.unk3', None, []),
    'KB': ("c15.known:\n  b = 'kb'\n  c = 'kc'", 'bind', 'c15.known', {'b': 'kb', 'c': 'kc'}, []),
    'UB': ("unk2:\n  a = 1\n  b = @c15.g()", 'bind', 'unk2', None, []),
    'KR': ("c15.known.b = @unkref", 'bind', 'c15.known', {'b': P('unkref', False)}, ['unkref']),
    'KRE': ("c15.known.c = @sc/unkref()", 'bind', 'c15.known', {'c': P('unkref', True)}, ['unkref']),
    'KRN': ("c15.known.c = [1, {'k': (@unkref2(),)}]", 'bind', 'c15.known', {'c': [1, {'k': (P('unkref2', True),)}]},
            ['unkref2']),
    'KRD': ("c15.known.b = {@unkref(): 1, 'lit': 2}", 'bind', 'c15.known', {'b': {P('unkref', True): 1, 'lit': 2}},
            ['unkref']),       # the unknown reference is a dict KEY
    'KRK': ("c15.known.b = @c15.g()", 'bind', 'c15.known', {'b': ('REF', 'c15.g', True)}, []),
    'KRKS': ("c15.known.c = [@a/b/c15.g(), @a/c15.g, (@x/y/z/c15.g(),)]", 'bind', 'c15.known',
             {'c': [('REF', 'c15.g', True), ('REF', 'c15.g', False), (('REF', 'c15.g', True),)]}, []),
    'M': ("mac = @unkref()", 'macro', 'mac', {'value': P('unkref', True)}, ['unkref']),
    'IP': ("import json", 'import', 'json', None, []),
    'IM': ("import no_such_mod_c15", 'import_missing', 'no_such_mod_c15', None, []),
    'UR': ("c15.unk.a = @unkref()", 'bind', 'c15.unk', None, ['unkref']),
}
SKIPS = {
    'False': False, 'True': True,
    'list_all': ['c15.unk', 'unk', 'pkg.unk3', 'unk2', 'unkref', 'unkref2'],
    'tuple_all': ('c15.unk', 'unk', 'pkg.unk3', 'unk2', 'unkref', 'unkref2'),
    'set_all': {'c15.unk', 'unk', 'pkg.unk3', 'unk2', 'unkref', 'unkref2'},
    'list_targets_only': ['c15.unk', 'unk', 'pkg.unk3', 'unk2'],
    'list_refs_only': ['unkref', 'unkref2'],
    'list_one': ['c15.unk'],
    'set_other': {'something_else'},
    'list_empty': [],
    'list_known': ['c15.known', 'c15.g'],
}
KNOWN_SEL = {'c15.known', 'c15.g'}


def bound(tier):
  return 'statement lists len<=%d over %d statements x %d skip_unknown forms; %d dynamic-registration cases' % (
      3 if tier == 'quick' else 4, len(STM), len(SKIPS), len(list(dyn_cases())))


def covers(skip, name):
  if isinstance(skip, bool):
    return skip
  return name in skip


def model(keys, skip):
  """Returns ('error', index) or ('ok', expected config dict, placeholders present, dropped kinds)."""
  config = {}
  dropped = []
  imports = []
  for i, k in enumerate(keys):
    text, kind, target, params, refs = STM[k]
    if kind == 'import':
      imports.append(target)
      continue
    if kind == 'import_missing':
      if not skip:
        return ('error', i)
      dropped.append('import')
      continue
    target_known = kind == 'macro' or target in KNOWN_SEL
    if not target_known:
      # parser order: the value (and its references) is parsed before the statement is applied or skipped
      for r in refs:
        if not covers(skip, r):
          return ('error', i)
      if k == 'UB':
        pass
      if covers(skip, target):
        dropped.append('block' if k == 'UB' else 'binding')
        continue
      return ('error', i)
    for r in refs:
      if not covers(skip, r):
        return ('error', i)
    scope = 's' if kind == 'bind_s' else ''
    if kind == 'macro':
      key = ('mac', 'gin.macro')
    else:
      key = (scope, target)
    config.setdefault(key, {}).update(params)
  return ('ok', config, dropped, imports)


def canon_real(v):
  if isinstance(v, cfg._UnknownConfigurableReference):
    return ('PLACEHOLDER', v.selector, v.evaluate)
  if isinstance(v, cfg.ConfigurableReference):
    return ('REF', v.configurable.selector, v.evaluate)
  if isinstance(v, list):
    return [canon_real(x) for x in v]
  if isinstance(v, tuple):
    return tuple(canon_real(x) for x in v)
  if isinstance(v, dict):
    return {canon_real(k): canon_real(x) for k, x in v.items()}
  return v


def has_placeholder(v):
  if isinstance(v, tuple) and v and v[0] == 'PLACEHOLDER':
    return True
  if isinstance(v, (list, tuple)):
    return any(has_placeholder(x) for x in v)
  if isinstance(v, dict):
    return any(has_placeholder(x) for x in v.values()) or any(has_placeholder(k) for k in v)
  return False


def run_case(keys, sname, res):
  desc = [list(keys), sname]
  skip = SKIPS[sname]
  harness.hard_reset()
  text = '\n'.join(STM[k][0] for k in keys) + '\n'
  m = model(keys, skip)
  has_unknown = any(STM[k][1] == 'import_missing' or STM[k][4] or
                    (STM[k][1] in ('bind', 'bind_s') and STM[k][2] not in KNOWN_SEL) for k in keys)
  res.case((tuple(keys), sname), has_unknown)
  try:
    gin.parse_config(text, skip_unknown=skip)
    out = 'ok'
  except Exception as e:  # pylint: disable=broad-except
    out, exc = 'error', e
  res.outcome('%s:%s' % (m[0], out))
  if m[0] == 'error':
    if out != 'error':
      res.violation('uncovered_unknown_accepted', 'statements %r with skip_unknown=%r: statement %d names an unknown that '
                    'is not covered, but parsing succeeded; config:\n%s' % (keys, skip, m[1], gin.config_str()), desc)
    else:
      res.w('unlisted_unknown_error')
    return
  if out != 'ok':
    res.violation('covered_unknown_rejected', 'statements %r with skip_unknown=%r: expected success, got %r\n%s' %
                  (keys, skip, exc, text), desc)
    return
  _, config, dropped, imports = m
  got = {k: {p: canon_real(v) for p, v in d.items()} for k, d in cfg._CONFIG.items()}
  if got != config:
    res.violation('not_exactly_the_unknown_statements', 'statements %r with skip_unknown=%r: config %r, deletion model %r'
                  % (keys, skip, got, config), desc)
    return
  got_imports = sorted(i.module for i in cfg._IMPORTS)
  if sorted(set(got_imports)) != sorted(set(imports)):
    res.violation('imports', 'statements %r with skip_unknown=%r: recorded imports %r, model %r' %
                  (keys, skip, got_imports, sorted(set(imports))), desc)
    return
  if 'binding' in dropped:
    res.w('unknown_binding_dropped')
  if 'block' in dropped:
    res.w('unknown_block_dropped')
  if 'import' in dropped:
    res.w('missing_import_skipped')
  if config and dropped:
    res.w('known_always_applied')
  if isinstance(skip, list) and dropped:
    res.w('list_form')
  if isinstance(skip, set) and dropped:
    res.w('set_form')
  if isinstance(skip, tuple) and dropped:
    res.w('tuple_form')
  if any(v == ('REF', 'c15.g', True) or (isinstance(v, list) and ('REF', 'c15.g', True) in v)
         for d in config.values() for v in d.values()):
    res.w('known_reference_stays_real')
  ph = any(has_placeholder(v) for d in config.values() for v in d.values())
  if ph:
    res.w('placeholder_kept')
    # use: calling the consumer of a placeholder must raise "No configurable matching"
    used = [p for (sc, sel), d in config.items() if sel == 'c15.known' and sc == '' for p, v in d.items()
            if has_placeholder(v)]
    if used:
      try:
        r = KNOWN()
        res.violation('placeholder_silently_used', 'statements %r: consumer call returned %r although %r hold unknown '
                      'references' % (keys, r, used), desc)
        return
      except ValueError as e:
        if 'No configurable matching' not in str(e):
          res.violation('placeholder_wrong_error', 'statements %r: use raised %r' % (keys, e), desc)
          return
        res.w('placeholder_raises_on_use')
      except Exception as e:  # pylint: disable=broad-except
        res.violation('placeholder_wrong_error', 'statements %r: use raised %r' % (keys, e), desc)
        return
    # History between the lenient parse and finalize (a function of the case): nothing / one more parse_config call
    # that meets no unknown name / trailing bindings parsed on their own.  The placeholder is still in the config.
    later = core.h64(repr(desc)) % 3
    if later == 1:
      gin.parse_config('# a later text without unknown names\n', skip_unknown=skip)
    elif later == 2:
      gin.parse_config_files_and_bindings(None, ['# nothing unknown here'], finalize_config=False, skip_unknown=skip)
    if later:
      res.w('later_parse_before_finalize')
    try:
      gin.finalize()
      res.violation('placeholder_survives_finalize', 'statements %r (later parse variant %d): finalize accepted a config '
                    'holding unknown references' % (keys, later), desc)
    except ValueError as e:
      if 'No configurable matching' in str(e):
        res.w('placeholder_raises_at_finalize')
      elif 'macro' not in str(e).lower() and 'binding' not in str(e).lower():
        res.violation('placeholder_wrong_error', 'statements %r: finalize raised %r' % (keys, e), desc)


# ------------------------------------------------------------------------------------ dynamic registration
DYN_HEAD = 'from __gin__ import dynamic_registration\nimport c15mod\n'
DYN = {
    'known_fn': ('c15mod.fn.arg = 3', True, ('', 'c15mod.fn', {'arg': 3})),
    'known_block': ('c15mod.known:\n  a = 1\n  b = 2', True, ('', 'c15mod.known', {'a': 1, 'b': 2})),
    'known_scoped': ('s/c15mod.fn.arg = 4', True, ('s', 'c15mod.fn', {'arg': 4})),
    'unknown_attr': ('c15mod.nofn.arg = 1', False, None),
    'unknown_symbol': ('other.fn.arg = 1', False, None),
    'unknown_block': ('c15mod.nofn:\n  arg = 1', False, None),
    'known_with_unknown_ref': ('c15mod.fn.arg = @c15mod.nog()', 'ref', ('', 'c15mod.fn', {'arg': P('c15mod.nog', True)})),
}


def dyn_cases():
  for name in DYN:
    for sname in ('False', 'True', 'list_dyn', 'set_other', 'list_naming_known', 'tuple_naming_known'):
      for pre in (False, True):
        yield ['dyn', name, sname, pre]


def run_dyn_case(case, res):
  _, name, sname, pre = case
  desc = list(case)
  skip = {'False': False, 'True': True, 'list_dyn': ['c15mod.nofn', 'other.fn', 'c15mod.nog'],
          'set_other': {'zzz'},
          # naming a configurable that IS resolvable must not make it skippable ("unknown AND listed")
          'list_naming_known': ['c15mod.fn', 'c15mod.known', 'c15mod.nofn', 'other.fn', 'c15mod.nog'],
          'tuple_naming_known': ('c15mod.fn', 'c15mod.known', 'c15mod.g')}[sname]
  text, known, exp = DYN[name]
  harness.hard_reset()
  for k in [k for k in sys.modules if k == 'c15mod']:
    pass
  if pre:
    # registered by an earlier parse of another file
    gin.parse_config(DYN_HEAD + 'c15mod.fn.arg = 0\nc15mod.known.a = 0\n')
    cfg._CONFIG.clear()
    cfg._CONFIG_PROVENANCE.clear()
  res.case(tuple(case), True)
  try:
    gin.parse_config(DYN_HEAD + text + '\n', skip_unknown=skip)
    out = 'ok'
  except Exception as e:  # pylint: disable=broad-except
    out, exc = 'error', e
  res.outcome('dyn:%s:%s' % (known, out))
  got = {k: {p: canon_real(v) for p, v in d.items()} for k, d in cfg._CONFIG.items()}
  if known is True:
    want = {(exp[0], exp[1]): exp[2]}
    if out != 'ok' or got != want:
      res.violation('dynamic_known_binding_dropped' if out == 'ok' and not got else 'dynamic_known_wrong',
                    '%r: the target is resolvable through the file\'s imports, skip_unknown=%r, %s: config %r, expected %r'
                    % (desc, skip, 'already registered' if pre else 'first parse', got, want), desc)
    else:
      res.w('dynamic_known_applied')
  elif known is False:
    tgt = text.split(':')[0].split(' = ')[0].rsplit('.', 1)[0] if ':' not in text else text.split(':')[0]
    tgt = {'unknown_attr': 'c15mod.nofn', 'unknown_symbol': 'other.fn', 'unknown_block': 'c15mod.nofn'}[name]
    if covers(skip, tgt):
      if out != 'ok' or got:
        res.violation('dynamic_unknown_not_skipped', '%r: skip_unknown=%r: %s config %r' % (desc, skip, out, got), desc)
      else:
        res.w('dynamic_unknown_skipped')
    elif out != 'error':
      res.violation('dynamic_unknown_accepted', '%r: skip_unknown=%r: accepted, config %r' % (desc, skip, got), desc)
  else:
    if covers(skip, 'c15mod.nog'):
      want = {(exp[0], exp[1]): exp[2]}
      if out != 'ok' or got != want:
        res.violation('dynamic_known_binding_dropped' if out == 'ok' and not got else 'dynamic_placeholder',
                      '%r: skip_unknown=%r, %s: %s config %r, expected %r' %
                      (desc, skip, 'already registered' if pre else 'first parse', out, got, want), desc)
    elif out != 'error':
      res.violation('dynamic_unknown_ref_accepted', '%r: skip_unknown=%r accepted; config %r' % (desc, skip, got), desc)


# ------------------------------------------------------------------------- names that become known within one text
H_DYN = 'from __gin__ import dynamic_registration\n'
LATE = {
    # name -> (text, expected config after a lenient parse)
    'dyn_import_later': (H_DYN + "c15mod.fn.arg = 1\nimport c15mod\nc15mod.fn.arg = 3\n", {('', 'c15mod.fn'): {'arg': 3}}),
    'dyn_import_later_block': (H_DYN + "c15mod.known:\n  a = 1\nimport c15mod\nc15mod.known:\n  a = 2\n  b = 3\n",
                               {('', 'c15mod.known'): {'a': 2, 'b': 3}}),
    'dyn_import_later_scoped': (H_DYN + "s/c15mod.fn.arg = 1\nimport c15mod\ns/c15mod.fn.arg = 3\nc15mod.fn.arg = 4\n",
                                {('s', 'c15mod.fn'): {'arg': 3}, ('', 'c15mod.fn'): {'arg': 4}}),
    'import_registers': ("late_fn.a = 1\nimport c15late\nlate_fn.a = 2\nc15late.late_fn.b = 3\n",
                         {('', 'c15late.late_fn'): {'a': 2, 'b': 3}}),
    'import_registers_block': ("late_fn:\n  a = 1\nimport c15late\nlate_fn:\n  b = 3\n", {('', 'c15late.late_fn'): {'b': 3}}),
}
# registered by an EARLIER dynamic-registration parse, but not imported by the file at hand: unknown in this file
EARLIER = H_DYN + 'import c15mod\nc15mod.fn.arg = 0\nc15mod.known.a = 0\n'
NOT_IMPORTED = {
    'binding': (H_DYN + "c15mod.fn.arg = 2\nimport json\n", 'c15mod.fn'),
    'block': (H_DYN + "c15mod.known:\n  a = 1\n", 'c15mod.known'),
    'scoped': (H_DYN + "s/c15mod.fn.arg = 2\n", 'c15mod.fn'),
    'reference': (H_DYN + "import json\njson.dumps.obj = @c15mod.fn()\n", 'c15mod.fn'),
}


def run_not_imported_case(case, res):
  _, name, sname = case
  text, target = NOT_IMPORTED[name]
  skip = dict(LATE_SKIPS, **{'False': False, 'other_list': ['zzz']})[sname]
  harness.hard_reset()
  gin.parse_config(EARLIER)
  cfg._CONFIG.clear()
  cfg._CONFIG_PROVENANCE.clear()
  res.case(tuple(case), True)
  try:
    gin.parse_config(text, skip_unknown=skip)
    out = 'ok'
  except Exception as e:  # pylint: disable=broad-except
    out = type(e).__name__
  got = {k: {p: canon_real(v) for p, v in d.items()} for k, d in cfg._CONFIG.items()}
  res.outcome('not_imported:%s' % out)
  if covers(skip, target):
    want = {} if name != 'reference' else {('', 'json.dumps'): {'obj': P('c15mod.fn', True)}}
    if out != 'ok' or got != want:
      res.violation('dynamic_unknown_not_skipped', '%r: %s is registered by an earlier file but not imported by this one '
                    '(unknown here), skip_unknown=%r: %s, config %r, expected %r' % (case, target, skip, out, got, want),
                    list(case))
    else:
      res.w('known_is_per_file')
  elif out == 'ok':
    res.violation('dynamic_unknown_accepted', '%r: skip_unknown=%r does not cover %s, yet the parse was accepted: %r' %
                  (case, skip, target, got), list(case))


LATE_SKIPS = {'True': True, 'list': ['c15mod.fn', 'c15mod.known', 'late_fn'], 'tuple': ('c15mod.fn', 'c15mod.known', 'late_fn'),
              'set': {'c15mod.fn', 'c15mod.known', 'late_fn'}}


def run_late_case(case, res):
  _, name, sname = case
  text, want = LATE[name]
  harness.hard_reset()
  sys.modules.pop('c15late', None)
  res.case(tuple(case), True)
  try:
    gin.parse_config(text, skip_unknown=LATE_SKIPS[sname])
  except Exception as e:  # pylint: disable=broad-except
    res.violation('late_known_failed', '%r: %r' % (case, e), list(case))
    return
  got = {k: dict(v) for k, v in cfg._CONFIG.items()}
  res.outcome('late')
  if got != want:
    res.violation('dynamic_known_binding_dropped', '%r: a name that is unknown at its first statement and known (import) '
                  'at its later ones: config %r, expected %r\n%s' % (case, got, want, text), list(case))
  else:
    res.w('known_from_the_import_on')


def gen(tier):
  for leaf_kind in ('listed_unknown', 'unlisted_unknown', 'unlisted_unknown_reference'):
    for sname in ('list', 'tuple', 'set', 'True'):
      yield ['include', leaf_kind, sname]
  for how in ('registered_after_parse', 'registered_but_not_imported'):
    for sname in ('True', 'list', 'set'):
      yield ['resolved_later', how, sname]
  for mod in ('c15raises_ie', 'c15needs_missing'):
    for sname in ('False', 'True', 'list_all', 'tuple_all', 'set_other', 'list_empty'):
      yield ['failing_import', mod, sname]
  for name in NOT_IMPORTED:
    for sname in list(LATE_SKIPS) + ['False', 'other_list']:
      yield ['notimp', name, sname]
  for name in LATE:
    for sname in LATE_SKIPS:
      yield ['late', name, sname]
  n = 3 if tier == 'quick' else 4
  keys = list(STM)
  for k in range(1, n + 1):
    for t in itertools.product(keys, repeat=k):
      for sname in SKIPS:
        yield [list(t), sname]
  for c in dyn_cases():
    yield c


NSH = 64


def shards(tier):
  return list(range(NSH))


def run_shard(i, tier):
  res = core.Result()
  for n, c in enumerate(gen(tier)):
    if n % NSH != i:
      continue
    try:
      if c[0] == 'failing_import':
        run_failing_import_case(c, res)
      elif c[0] == 'include':
        run_include_case(c, res)
      elif c[0] == 'resolved_later':
        run_resolved_later_case(c, res)
      elif c[0] == 'notimp':
        run_not_imported_case(c, res)
      elif c[0] == 'late':
        run_late_case(c, res)
      elif c[0] == 'dyn':
        run_dyn_case(c, res)
      else:
        run_case(c[0], c[1], res)
    except Exception:  # pylint: disable=broad-except
      import traceback
      res.extra['harness_error'] = traceback.format_exc() + '\ncase=%r' % (c,)
      break
    if n % 1499 == i:
      res.sample({'case': c})
  harness.hard_reset()
  return res


def replay(c):
  res = core.Result()
  if c[0] == 'failing_import':
    run_failing_import_case(c, res)
  elif c[0] == 'include':
    run_include_case(c, res)
  elif c[0] == 'resolved_later':
    run_resolved_later_case(c, res)
  elif c[0] == 'notimp':
    run_not_imported_case(c, res)
  elif c[0] == 'late':
    run_late_case(c, res)
  elif c[0] == 'dyn':
    run_dyn_case(c, res)
  else:
    run_case(c[0], c[1], res)
  harness.hard_reset()
  return res
