"""C18 — shared records stay consistent under threads; singletons are constructed once.

E2: five 2-3 thread harnesses over the real gin module, all schedules with <= k preemptions.
E1: all sequential histories of singleton use / clear over two keys.
"""
import itertools
import os
import sys
import time

from vf import core
from vf import harness
from vf import sched
from vf.harness import gin, cfg

ID = 'C18'
LEVEL = 'model_checking'
RULE = ('threads: for each harness every schedule with <=k preemptions (scheduling points = line events in gin frames '
        'that reference shared module state, or all gin lines at thorough; plus lock acquires) is executed on real '
        'threads; oracle per schedule: no exception, no deadlock, every mid-run operative_config_str() parses, final '
        'operative config == sequential reference, one construction per singleton key and identical object for all '
        'users. sequential: every history of use/clear/clear-with-constants over 2 singleton keys to depth d. '
        'non-trivial = schedule with >=1 preemption or history with a repeated key.')
ASSUMPTIONS = ['statement (line) granularity; CPython GIL makes single bytecodes atomic',
               'module-level gin locks replaced by scheduler-aware model locks',
               'reduced scheduling points (quick) skip frames that reference no module-level shared store']
WITNESSES = ['preempted_schedule', 'reader_saw_partial', 'lock_contended', 'same_singleton_shared',
             'singleton_once', 'clear_forgets_singleton']

COUNT = {}
CONFIG = """
c18.f.a = 10
sa/c18.f.a = 11
sb/c18.f.b = 22
c18.user.x = @k1/gin.singleton()
k1/gin.singleton.constructor = @c18.Obj
c18.user2.x = @k2/gin.singleton()
k2/gin.singleton.constructor = @c18.Obj2
c18.user1b.x = @k1/gin.singleton()
c18.user3.x = @k3/gin.singleton()
k3/gin.singleton.constructor = @c18.Falsy
c18.user3b.x = @k3/gin.singleton()
c18.user4.x = @k4/gin.singleton()
k4/gin.singleton.constructor = @c18.make_none
c18.user5.x = @k5/gin.singleton()
k5/gin.singleton.constructor = @c18.flaky
""" + 'c18.user_o1.x = @ko1/gin.singleton()\nko1/gin.singleton.constructor = @c18.outer\nko1/c18.outer.deps = [@na0/gin.singleton(), @na1/gin.singleton(), @na2/gin.singleton()]\nc18.user_o2.x = @ko2/gin.singleton()\nko2/gin.singleton.constructor = @c18.outer\nko2/c18.outer.deps = [@nb0/gin.singleton(), @nb1/gin.singleton(), @nb2/gin.singleton()]\nna0/gin.singleton.constructor = @c18.Leaf\nnb0/gin.singleton.constructor = @c18.Leaf\nna1/gin.singleton.constructor = @c18.Leaf\nnb1/gin.singleton.constructor = @c18.Leaf\nna2/gin.singleton.constructor = @c18.Leaf\nnb2/gin.singleton.constructor = @c18.Leaf\n' + 'c18.user_w1.x = @ko1w/gin.singleton()\nko1w/gin.singleton.constructor = @c18.outer\nko1w/c18.outer.deps = [@wa0/gin.singleton(), @wa1/gin.singleton(), @wa2/gin.singleton(), @wa3/gin.singleton(), @wa4/gin.singleton(), @wa5/gin.singleton(), @wa6/gin.singleton(), @wa7/gin.singleton(), @wa8/gin.singleton(), @wa9/gin.singleton()]\nc18.user_w2.x = @ko2w/gin.singleton()\nko2w/gin.singleton.constructor = @c18.outer\nko2w/c18.outer.deps = [@wb0/gin.singleton(), @wb1/gin.singleton(), @wb2/gin.singleton(), @wb3/gin.singleton(), @wb4/gin.singleton(), @wb5/gin.singleton(), @wb6/gin.singleton(), @wb7/gin.singleton(), @wb8/gin.singleton(), @wb9/gin.singleton()]\nwa0/gin.singleton.constructor = @c18.Leaf\nwb0/gin.singleton.constructor = @c18.Leaf\nwa1/gin.singleton.constructor = @c18.Leaf\nwb1/gin.singleton.constructor = @c18.Leaf\nwa2/gin.singleton.constructor = @c18.Leaf\nwb2/gin.singleton.constructor = @c18.Leaf\nwa3/gin.singleton.constructor = @c18.Leaf\nwb3/gin.singleton.constructor = @c18.Leaf\nwa4/gin.singleton.constructor = @c18.Leaf\nwb4/gin.singleton.constructor = @c18.Leaf\nwa5/gin.singleton.constructor = @c18.Leaf\nwb5/gin.singleton.constructor = @c18.Leaf\nwa6/gin.singleton.constructor = @c18.Leaf\nwb6/gin.singleton.constructor = @c18.Leaf\nwa7/gin.singleton.constructor = @c18.Leaf\nwb7/gin.singleton.constructor = @c18.Leaf\nwa8/gin.singleton.constructor = @c18.Leaf\nwb8/gin.singleton.constructor = @c18.Leaf\nwa9/gin.singleton.constructor = @c18.Leaf\nwb9/gin.singleton.constructor = @c18.Leaf\n'


def setup():
  # FIRST: whatever a wrapper captures at registration time (a lock held in its closure) must already be a model lock
  sched.install_model_locks()

  @gin.configurable(module='c18')
  def f(a=1, b=2, c='c'):
    return (a, b)

  @gin.configurable(module='c18')
  class Obj:
    def __init__(self, tag='o1'):
      COUNT['Obj'] = COUNT.get('Obj', 0) + 1

  @gin.configurable(module='c18')
  class Obj2:
    def __init__(self, tag='o2'):
      COUNT['Obj2'] = COUNT.get('Obj2', 0) + 1

  @gin.configurable(module='c18')
  class Falsy:
    """A singleton whose object is falsy (an initially empty container)."""
    def __init__(self):
      COUNT['Falsy'] = COUNT.get('Falsy', 0) + 1

    def __len__(self):
      return 0

  @gin.configurable(module='c18')
  def make_none():
    COUNT['make_none'] = COUNT.get('make_none', 0) + 1
    return None

  @gin.configurable(module='c18')
  def flaky():
    """A constructor that fails the first time it runs (a resource that is not there yet) and works afterwards."""
    ATTEMPTS['flaky'] = ATTEMPTS.get('flaky', 0) + 1
    if ATTEMPTS['flaky'] == 1:
      raise IOError('resource not ready')
    COUNT['flaky'] = COUNT.get('flaky', 0) + 1
    return FlakyObj()

  @gin.configurable(module='c18')
  def user5(x='unset'):
    return x
  global USER5
  USER5 = user5

  @gin.configurable(module='c18')
  class Leaf:
    def __init__(self):
      k = 'Leaf@' + gin.current_scope_str()
      COUNT[k] = COUNT.get(k, 0) + 1

  class Out1:
    pass

  class Out2:
    pass

  @gin.configurable(module='c18')
  def outer(deps=None):
    """A singleton constructor that itself uses other singletons."""
    k = 'outer@' + gin.current_scope_str()
    COUNT[k] = COUNT.get(k, 0) + 1
    o = (Out1 if 'ko1' in k else Out2)()      # ko1 / ko1w -> Out1, ko2 / ko2w -> Out2
    o.deps = deps
    return o

  @gin.configurable(module='c18')
  def user_o1(x='unset'):
    return x

  @gin.configurable(module='c18')
  def user_o2(x='unset'):
    return x

  @gin.configurable(module='c18')
  def user_w1(x='unset'):
    return x

  @gin.configurable(module='c18')
  def user_w2(x='unset'):
    return x
  global USER_O1, USER_O2, USER_W1, USER_W2
  USER_O1, USER_O2, USER_W1, USER_W2 = user_o1, user_o2, user_w1, user_w2

  @gin.configurable(module='c18')
  def user3(x='unset'):
    return x

  @gin.configurable(module='c18')
  def user3b(x='unset'):
    return x

  @gin.configurable(module='c18')
  def user4(x='unset'):
    return x

  @gin.configurable(module='c18')
  def user(x=None):
    return x

  @gin.configurable(module='c18')
  def user2(x=None):
    return x

  @gin.configurable(module='c18')
  def user1b(x=None):
    return x
  global F, USER, USER2, USER1B, USER3, USER3B, USER4
  F, USER, USER2, USER1B, USER3, USER3B, USER4 = f, user, user2, user1b, user3, user3b, user4
  # a module used through dynamic registration (H11)
  import atexit, shutil, tempfile  # pylint: disable=import-outside-toplevel,multiple-imports
  d = tempfile.mkdtemp(prefix='c18_')
  with open(os.path.join(d, 'c18dyn.py'), 'w') as fh:
    fh.write("def first(x=None, y='fy'):\n  return (x, y)\n\ndef second(x=None, z='sz'):\n  return (x, z)\n")
  sys.path.insert(0, d)
  atexit.register(lambda: shutil.rmtree(d, ignore_errors=True))
  import c18dyn  # pylint: disable=import-outside-toplevel,unused-import
  sched.install_model_locks()


class FlakyObj:
  pass


ATTEMPTS = {}


def b_user_tolerant():
  """Uses the singleton; a failure of the constructor itself (its own IOError) is this caller's to handle."""
  try:
    return ('obj', USER5())
  except IOError:
    return ('f', 'constructor failed')


def b_scoped(scope):
  def body():
    with gin.config_scope(scope):
      return ('f', F())
  return body


def b_f(*args):
  def body():
    return ('f', F(*args))
  return body


def b_reader():
  return ('read', gin.operative_config_str())


def b_user(fn_name):
  def body():
    return ('obj', globals()[fn_name]())
  return body


def b_probe_then_call():
  """The documented probe for a singleton that does not exist yet (ValueError), after which the thread carries on."""
  try:
    gin.config.singleton_value('c18_not_constructed_yet')
  except ValueError:
    pass
  try:
    gin.config.singleton_value('c18_bad_constructor', 'not callable')
  except ValueError:
    pass
  return ('f', F())


DYN_CONFIG = ('from __gin__ import dynamic_registration\nimport c18dyn\nc18dyn.first.x = 1\nc18dyn.second.x = @c18dyn.first()\n'
              's/c18dyn.second.x = 2\n')
HCONFIG = {'H11_dynamic_registration_first_calls+reader': DYN_CONFIG}


def b_dyn(name, scope=None):
  def body():
    import contextlib  # pylint: disable=import-outside-toplevel
    import c18dyn  # pylint: disable=import-outside-toplevel
    with (gin.config_scope(scope) if scope else contextlib.nullcontext()):
      return ('f', gin.get_configurable(getattr(c18dyn, name))())
  return body


HARNESSES = {
    'H1_scoped_calls+reader': lambda: [b_scoped('sa'), b_scoped('sb'), b_reader],
    'H2_same_key_diff_args+reader': lambda: [b_f(), b_f(1), b_reader],
    'H3_same_singleton': lambda: [b_user('USER'), b_user('USER1B')],
    'H4_different_singletons': lambda: [b_user('USER'), b_user('USER2')],
    'H5_singleton+reader': lambda: [b_user('USER'), b_reader],
    'H6_three_users_same_singleton': lambda: [b_user('USER'), b_user('USER1B'), b_user('USER')],
    'H7_falsy_singleton': lambda: [b_user('USER3'), b_user('USER3B')],
    'H8_failed_singleton_probe+user': lambda: [b_probe_then_call, b_user('USER')],
    # two singletons whose constructors use (disjoint sets of) further singletons, first used at the same time
    'H9_nested_singleton_constructors': lambda: [b_user('USER_O1'), b_user('USER_O2')],
    # the same with ten nested singletons per constructor (thorough tier only: long bodies)
    'H10_nested_singleton_constructors_wide': lambda: [b_user('USER_W1'), b_user('USER_W2')],
    # dynamic registration (the reader also collects the imports the records need): first calls vs a reader
    # the constructor raises the first time it runs: that caller sees the error, every other use gets the one object
    'H12_singleton_constructor_fails_once': lambda: [b_user_tolerant, b_user_tolerant, b_user_tolerant],
    'H11_dynamic_registration_first_calls+reader': lambda: [b_dyn('second'), b_dyn('second', 's'), b_reader],
}


def bound(tier):
  if tier == 'quick':
    return ('threads: 11 harnesses (2-3 threads; the wide nested-constructor harness H10 runs in the thorough tier only), all schedules with <=1 preemption at shared-state granularity plus <=3 (2 threads) / '
            '<=2 (3 threads) preemptions at points inside the code that touches the store concerned; sequential depth 4')
  return ('threads: 12 harnesses (incl. the wide nested-constructor harness H10), all schedules with <=1 preemption at '
          'shared-state granularity, <=3 (2 threads) / <=2 (3 threads) inside the code that touches the store concerned, and <=1 '
          'at all-gin-lines granularity for the two-thread harnesses; sequential depth 6')


def plan(tier):
  """(harness, preemption bound, granularity) triples."""
  out = []
  for h in HARNESSES:
    if h.startswith('H10') and tier == 'quick' and not os.environ.get('C18_WIDE'):
      continue
    focus = 'focus:singleton,_SINGLETONS' if 'singleton' in h else 'focus:_OPERATIVE_CONFIG,operative'
    if tier == 'quick':
      out.append((h, 1, 'shared'))
      if h.startswith(('H9', 'H10')):
        continue          # long bodies: the preemption-bound-1 exploration at shared-state granularity only
      if len(HARNESSES[h]()) == 2:
        out.append((h, 3, focus))
      else:
        out.append((h, 2, focus))
    elif h.startswith('H10'):
      out.append((h, 1, 'shared'))
    elif h.startswith('H9'):
      out.append((h, 1, 'shared'))
    else:
      # the quick plan plus, for the two-thread harnesses, every schedule with <=1 preemption at all-gin-lines granularity
      two = len(HARNESSES[h]()) == 2
      out.append((h, 1, 'shared'))
      out.append((h, 3 if two else 2, focus))
      if two:
        out.append((h, 1, 'all'))
  return out


def make_world(hname):
  def make():
    harness.hard_reset()
    COUNT.clear()
    ATTEMPTS.clear()
    gin.clear_config()      # History: the configuration was cleared before (the program re-configures itself)
    gin.parse_config(HCONFIG.get(hname, CONFIG))
    return HARNESSES[hname]()
  return make


_REF = {}
_PARSED_OK = set()


def reference(hname):
  """Final operative config of every sequential order (must all agree)."""
  if hname in _REF:
    return _REF[hname]
  make = make_world(hname)
  # Reference = the threads' bodies run one after another in thread order.  The other sequential orders are
  # themselves zero-preemption schedules and are compared with this reference by the exploration.
  bodies = make()
  outs = sched.run_sequential(bodies)
  for o in outs:
    if 'e' in o:
      raise RuntimeError('sequential run of %s raised %r' % (hname, o['e']))
  finals = {gin.operative_config_str()}
  # warm caches (arg-spec cache etc.) so that traced executions are line-for-line identical
  _REF[hname] = finals.pop()
  return _REF[hname]


def run_one(hname, devs, gran, res):
  """Runs exactly one schedule and applies the whole oracle (used by replay)."""
  make = make_world(hname)
  reference(hname)
  x = sched.Sched(make(), [tuple(d) for d in devs], gran).run()
  oracle(hname, x, res, gran)
  return x


def oracle(hname, x, res, gran):
  art = {'harness': hname, 'schedule': sorted(x.devs.items()), 'granularity': gran}
  npre = x.preemptions_before(len(x.points))
  res.case((hname, gran, tuple(sorted(x.devs.items()))), npre >= 1)
  res.traces += 1
  res.transitions += x.nsteps
  for p in x.points:
    res.state((hname, p[0], p[3]))
  if npre:
    res.w('preempted_schedule')
  if x.deadlock:
    res.violation('deadlock', '%s: deadlock under schedule %r' % (hname, sorted(x.devs.items())), art)
    res.outcome('deadlock')
    return
  final = gin.operative_config_str()
  counts = dict(COUNT)
  objs = {}
  reads = []
  failed = False
  for t in x.threads:
    if t.exc is not None:
      failed = True
      res.violation('thread_exception:' + type(t.exc).__name__, '%s: thread %d raised %r under schedule %r' %
                    (hname, t.id, t.exc, sorted(x.devs.items())), art)
      res.outcome('exc:' + type(t.exc).__name__)
      continue
    kind, val = t.result
    if kind == 'read':
      reads.append(val)
    elif kind == 'obj':
      objs.setdefault(type(val).__name__, []).append(val)
  if not failed:
    if final != _REF[hname]:
      res.violation('final_operative_differs', '%s: final operative config under schedule %r:\n%s\n-- sequential:\n%s'
                    % (hname, sorted(x.devs.items()), final, _REF[hname]), art)
    res.outcome('final:%s' % ('same' if final == _REF[hname] else 'diff'))
    for cname, n in counts.items():
      if n > 1:
        res.violation('singleton_constructed_twice', '%s: %s constructed %d times under schedule %r' %
                      (hname, cname, n, sorted(x.devs.items())), art)
      else:
        res.w('singleton_once')
    for cname, lst in objs.items():
      if any(o is not lst[0] for o in lst):
        res.violation('singleton_users_differ', '%s: users of one singleton received different %s objects under '
                      'schedule %r' % (hname, cname, sorted(x.devs.items())), art)
      elif len(lst) > 1:
        res.w('same_singleton_shared')
  for val in reads:
    if val != _REF[hname]:
      res.w('reader_saw_partial')
    res.outcome('read:%d' % val.count('\n'))
    if val not in _PARSED_OK:
      harness.hard_reset()
      try:
        gin.parse_config(val)
        _PARSED_OK.add(val)
      except Exception as e:  # pylint: disable=broad-except
        res.violation('read_unparseable', '%s: mid-run operative_config_str() does not parse (%r): %r; schedule %r'
                      % (hname, e, val, sorted(x.devs.items())), art)
  if x.nblocks:
    res.w('lock_contended')


def _node_task(args):
  hname, node, bnd, gran, local = args
  res = core.Result()
  kids = []
  try:
    reference(hname)
    make = make_world(hname)
    if local:
      stats = sched.new_stats()
      sched.explore_local(make, node, bnd, lambda x: oracle(hname, x, res, gran), gran, stats)
    elif sched._HANGS[0] < sched.MAX_HANGS:     # (a worker that has already reported hangs stops expanding)
      x = sched.run_node(make, node, gran)
      if x.hang:
        sched._HANGS[0] += 1
      oracle(hname, x, res, gran)
      kids = sched.children(x, node[0], bnd)
  except Exception:  # pylint: disable=broad-except
    import traceback
    res.extra['harness_error'] = traceback.format_exc() + '\nargs=%r' % (args,)
  harness.hard_reset()
  return res, kids


# ---------------------------------------------------------------------------- sequential singleton histories
SEQ_OPS = ['use1', 'use1b', 'use2', 'clear', 'clear_consts', 'value1', 'use3_falsy', 'use3b_falsy', 'use4_none']


def run_seq_history(hist, res):
  harness.hard_reset()
  COUNT.clear()
  gin.parse_config(CONFIG)
  model = {}    # key -> object
  built = {'Obj': 0, 'Obj2': 0, 'Falsy': 0, 'make_none': 0}
  for k, op in enumerate(hist):
    h = hist[:k + 1]
    try:
      if op in ('use1', 'use1b', 'use2', 'use3_falsy', 'use3b_falsy', 'use4_none'):
        key, cname, fn = {'use1': ('k1', 'Obj', USER), 'use1b': ('k1', 'Obj', USER1B),
                          'use2': ('k2', 'Obj2', USER2), 'use3_falsy': ('k3', 'Falsy', USER3),
                          'use3b_falsy': ('k3', 'Falsy', USER3B), 'use4_none': ('k4', 'make_none', USER4)}[op]
        got = fn()
        if key in model:
          if got is not model[key]:
            res.violation('seq_singleton_rebuilt', 'history %r: %s delivered a different object' % (h, op), h)
        else:
          built[cname] += 1
          model[key] = got
        if COUNT.get(cname, 0) != built[cname]:
          res.violation('seq_singleton_count', 'history %r: %s constructed %d times, model %d' %
                        (h, cname, COUNT.get(cname, 0), built[cname]), h)
      elif op == 'value1':
        try:
          got = cfg.singleton_value('k1')
          if 'k1' not in model or got is not model['k1']:
            res.violation('seq_singleton_value', 'history %r: singleton_value(k1) -> %r' % (h, got), h)
        except ValueError:
          if 'k1' in model:
            res.violation('seq_singleton_value', 'history %r: singleton_value(k1) raised though constructed' % (h,), h)
      else:
        if model:
          res.w('clear_forgets_singleton')
        gin.clear_config(clear_constants=(op == 'clear_consts'))
        model.clear()
        gin.parse_config(CONFIG)
    except Exception as e:  # pylint: disable=broad-except
      res.violation('seq_exception', 'history %r raised %r' % (h, e), h)
      return
    res.transitions += 1
    res.state(('seq', tuple(sorted(model)), tuple(sorted(built.items()))))
  res.traces += 1


def _seq_shard(args):
  i, n, depth = args
  res = core.Result()
  idx = 0
  for d in range(1, depth + 1):
    for hist in itertools.product(SEQ_OPS, repeat=d):
      idx += 1
      if idx % n != i:
        continue
      res.case(('seq', hist), len(set(hist)) < len(hist))
      run_seq_history(list(hist), res)
      res.outcome('seq')
  harness.hard_reset()
  return res


def run(ctx):
  res = core.Result()
  t0 = time.time()
  for hname, bnd, gran in plan(ctx.tier):
    reference(hname)
    r = core.Result()
    sched.drive(ctx, _node_task, lambda nd, local, h=hname, b=bnd, g=gran: (h, nd, b, g, local), bnd, r,
                local_budget=min(1, bnd - 1))
    res.extra.setdefault('thread_harnesses', {})['%s/%s/k<=%d' % (hname, gran, bnd)] = {
        'schedules': r.traces, 'steps': r.transitions}
    if r.violations:
      res.sample({'harness': hname, 'granularity': gran, 'preemption_bound': bnd,
                  'violating_schedule': r.violations[0]['replay']['schedule']})
    else:
      res.sample({'harness': hname, 'granularity': gran, 'preemption_bound': bnd, 'schedules': r.traces})
    res.merge(r)
    if os.environ.get('VERIF_DEBUG'):
      print('  [c18] %s %s k<=%d: %d schedules, %.1fs' % (hname, gran, bnd, r.traces, time.time() - t0), file=sys.stderr)
  depth = 4 if ctx.quick else 6
  n = ctx.jobs * 2
  for r in ctx.pmap(_seq_shard, [(i, n, depth) for i in range(n)]):
    res.merge(r)
  return res


def replay(obj):
  res = core.Result()
  if isinstance(obj, dict):
    run_one(obj['harness'], obj['schedule'], obj.get('granularity', 'shared'), res)
  else:
    run_seq_history(list(obj), res)
  harness.hard_reset()
  return res
