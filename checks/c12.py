"""C12 — finalize locks the configuration; unlock_config always restores the lock.

E1: BFS over histories of finalize / unlock enter / unlock exit (ok, raising) / bind / parse / register /
clear / hook registration / parses that plant an unbound macro, an unknown-reference placeholder or a
%gin.REQUIRED, against a LockModel run in lock-step.
"""
import threading

from vf import bfs
from vf import core
from vf import harness
from vf.harness import gin, cfg

ID = 'C12'
LEVEL = 'model_checking'
RULE = ('BFS over operation histories (alphabet in coverage.alphabet) up to the depth bound on real gin, states '
        'deduplicated on the canonical real internal state + open unlock blocks + hook kinds; after every transition '
        'lock flag, every parameter of the universe (query_parameter) and the outcome class of the operation are '
        'compared with LockModel. non-trivial = history length >= 2.')
ASSUMPTIONS = ['LockModel restates the property; gin.constant and register_finalize_hook are not guarded by the lock '
               '(the statement does not ask for it)', 'at most 2 user hooks and 2 late registrations per history']
WITNESSES = ['locked_bind_rejected', 'locked_register_rejected', 'unlock_restores_locked', 'raising_body_restores',
             'nested_unlock', 'hook_binding_applied', 'hook_conflict_rejected', 'finalize_twice_rejected',
             'bad_config_rejected_unlocked', 'clear_unlocks', 'hook_raises_leaves_unlocked',
             'unevaluated_after_evaluated_rejected']


class Boom(Exception):
  pass


def setup():
  @gin.configurable(module='c12')
  def f(x=0, y=0, z=0):
    return (x, y, z)
  global F
  F = f

  def helper12(p=0, q=0):
    return (p, q)
  gin.external_configurable(helper12, name='helper12', module='c12')
  global HELPER
  HELPER = helper12


OPS = ['finalize', 'unlock_enter', 'unlock_exit_ok', 'unlock_exit_raise', 'bind_x', 'parse_y', 'register', 'clear',
       'register_class_with_method', 'hook_y7', 'hook_y8_other_spelling', 'hook_z', 'hook_invalid', 'hook_raises', 'hook_none', 'hook_empty',
       'parse_unbound_macro', 'parse_placeholder', 'parse_required', 'bind_tuple_x', 'parse_block_z',
       'define_macro', 'parse_macro_y_evaluated', 'parse_macro_z_unevaluated', 'parse_macro_y_short_ref',
       'finalize_in_scope', 'parse_macro_z_dictkey', 'bind_x_in_other_thread', 'parse_scoped_y',
       'parse_y_one', 'hook_y_true', 'unlock_create', 'unlock_enter_pending', 'parse_placeholder_in_macro', 'reregister_existing']
UNIVERSE = ['c12.f.x', 'c12.f.y', 'c12.f.z']


def bound(tier):
  return 'depth<=%d over %d operations' % (4 if tier == 'quick' else 5, len(OPS))


def _hook(kind):
  if kind == 'hook_y7':
    return lambda config: {'c12.f.y': 7}
  if kind == 'hook_y8_other_spelling':
    return lambda config: {('', 'f', 'y'): 8}
  if kind == 'hook_z':
    return lambda config: {'f.z': 9}
  if kind == 'hook_y_true':
    return lambda config: {'c12.f.y': True}        # equal to a bound 1, but not the same value
  if kind == 'hook_invalid':
    return lambda config: {'c12.f.nope': 1}
  if kind == 'hook_none':
    return lambda config: None
  if kind == 'hook_empty':
    return lambda config: {}

  def raising(config):
    raise Boom()
  return raising


_OPEN_CMS = []


class World:

  def __init__(self):
    # Context managers left open by the previous world would run their `finally` whenever the garbage
    # collector closes the abandoned generator, i.e. inside some later world: close them now, then reset.
    while _OPEN_CMS:
      try:
        _OPEN_CMS.pop().gen.close()
      except Exception:  # pylint: disable=broad-except
        pass
    harness.hard_reset()
    self.locked = False
    self.stack = []          # saved lock flags of open unlock blocks (model)
    self.cms = []            # the real context manager objects
    self.pending = []        # unlock_config() objects created but not yet entered
    self.cm_kinds = []       # per open block: how its manager came to be (part of the state: futures may differ)
    self.config = {}         # model: key -> value tag
    self.hooks = []          # user hook kinds in registration order
    self.nreg = 0
    self.bad = set()         # {'macro','placeholder','required'} currently present in the config (parameter x)
    self.kinds = {}          # parameter -> 'macro' (evaluated use of nomacro) | 'uneval' (unevaluated use)
    self.macro_defined = False
    self.counter = 0
    # an (as yet unregistered) class one of whose methods is registered on its own
    class KM:
      def __init__(self, w=0):
        self.w = w

      def kmeth(self, v=0):
        return v
    KM.__module__ = 'c12'
    KM.kmeth.__module__ = 'c12'
    KM.kmeth.__qualname__ = 'KM.kmeth'
    gin.register(KM.kmeth)
    self.KM = KM
    self.km_registered = False

  def ops(self):
    out = []
    for op in OPS:
      if op.startswith('unlock_exit') and not self.stack:
        continue
      if op == 'unlock_enter' and len(self.stack) >= 2:
        continue
      if op == 'unlock_create' and (self.pending or len(self.stack) >= 2):
        continue
      if op == 'unlock_enter_pending' and not self.pending:
        continue
      if op.startswith('hook_') and len(self.hooks) >= 2:
        continue
      if op == 'register' and self.nreg >= 2:
        continue
      if op == 'register_class_with_method' and self.km_registered:
        continue
      out.append(op)
    return out

  # ------------------------------------------------------------------ observation
  def observe(self):
    obs = {'locked': gin.config_is_locked(),
           'registry': sorted(n for n in cfg._REGISTRY._selector_map if n.startswith('c12.') and 'late' not in n)}
    for k in UNIVERSE:
      try:
        v = gin.query_parameter(k)
        obs[k] = repr(v)
      except ValueError:
        obs[k] = None
    return obs

  def expected(self):
    obs = {'locked': self.locked,
           'registry': sorted(['c12.f', 'c12.helper12'] + (['c12.KM', 'c12.KM.kmeth'] if self.km_registered else ['c12.kmeth']))}
    for k in UNIVERSE:
      obs[k] = self.config.get(k)
    return obs

  def canon(self):
    return (harness.internal_state(), tuple(self.stack), tuple(self.hooks), self.nreg, tuple(c._c12_locked_at_creation for c in self.pending), tuple(self.cm_kinds))

  # ------------------------------------------------------------------ model of finalize
  def model_finalize(self):
    """Returns (outcome class, new bindings)"""
    if self.locked:
      return 'RuntimeError', None
    if ('macro' in self.bad or 'macro' in self.kinds.values()) and not self.macro_defined:
      return 'ValueError', None
    if 'uneval' in self.kinds.values():
      return 'ValueError', None
    if 'placeholder' in self.bad or 'placeholder_in_macro' in self.kinds.values():
      return 'ValueError', None
    if 'required' in self.bad:
      return 'ValueError', None
    new = {}
    for h in self.hooks:
      if h == 'hook_raises':
        return 'Boom', None
      if h == 'hook_invalid':
        return 'ValueError', None
      if h in ('hook_none', 'hook_empty'):
        continue
      key, val = {'hook_y7': ('c12.f.y', 7), 'hook_y8_other_spelling': ('c12.f.y', 8), 'hook_z': ('c12.f.z', 9),
                  'hook_y_true': ('c12.f.y', True)}[h]
      if key in new:
        return 'ValueError', None
      new[key] = val
    return 'ok', new

  # ------------------------------------------------------------------ transitions
  def apply(self, op, res, hist):
    before_model = self.expected()
    exp_out = 'ok'
    mutator = False
    try:
      if op in ('finalize', 'finalize_in_scope'):
        exp_out, new = self.model_finalize()
        if exp_out == 'ok':
          for k, v in new.items():
            self.config[k] = repr(v)
            if k == 'c12.f.x':
              self.bad.clear()
            self.kinds.pop(k.rsplit('.', 1)[1], None)
          self.locked = True
        if op == 'finalize':
          gin.finalize()
        else:
          with gin.config_scope('c12scope'):     # the active scope has no bearing on what finalize validates
            gin.finalize()
      elif op == 'unlock_enter':
        self.stack.append(self.locked)
        self.locked = False
        cm = gin.unlock_config()
        self.cms.append(cm)
        self.cm_kinds.append('immediate')
        _OPEN_CMS.append(cm)
        cm.__enter__()
      elif op == 'unlock_create':
        # the lock state an unlock block restores is the one that holds when the block is ENTERED
        cm = gin.unlock_config()
        cm._c12_locked_at_creation = self.locked
        self.pending.append(cm)
        _OPEN_CMS.append(cm)
      elif op == 'unlock_enter_pending':
        if self.pending:
          self.stack.append(self.locked)
          self.locked = False
          cm = self.pending.pop(0)
          self.cms.append(cm)
          self.cm_kinds.append(('created_earlier', cm._c12_locked_at_creation))
          cm.__enter__()
      elif op in ('unlock_exit_ok', 'unlock_exit_raise'):
        self.locked = self.stack.pop()
        cm = self.cms.pop()
        self.cm_kinds.pop()
        if op == 'unlock_exit_ok':
          cm.__exit__(None, None, None)
        else:
          e = Boom()
          swallowed = cm.__exit__(Boom, e, None)
          if swallowed and res is not None:
            res.violation('unlock_swallows_exception', 'unlock_config swallowed the body exception; %r' % (hist,), hist)
      elif op in ('bind_x', 'bind_tuple_x', 'parse_y', 'parse_block_z', 'parse_unbound_macro', 'parse_placeholder',
                  'parse_required', 'define_macro', 'parse_macro_y_evaluated', 'parse_macro_z_unevaluated',
                  'parse_macro_y_short_ref', 'parse_macro_z_dictkey', 'bind_x_in_other_thread', 'parse_scoped_y',
                  'parse_y_one', 'parse_placeholder_in_macro'):
        mutator = True
        if self.locked:
          exp_out = 'RuntimeError'
        self.counter += 1
        if op == 'bind_x':
          if not self.locked:
            self.config['c12.f.x'] = repr(1)
            self.bad.clear()
          gin.bind_parameter('c12.f.x', 1)
        elif op == 'bind_x_in_other_thread':
          # the lock is a property of the configuration, not of the thread that finalized it
          if not self.locked:
            self.config['c12.f.x'] = repr(1)
            self.bad.clear()
          box = []

          def worker():
            try:
              gin.bind_parameter('c12.f.x', 1)
            except BaseException as e:  # pylint: disable=broad-except
              box.append(e)
          t = threading.Thread(target=worker)
          t.start()
          t.join()
          if box:
            raise box[0]
        elif op == 'parse_scoped_y':
          # a binding of the same configurable under another scope says nothing about the unscoped entry
          if not self.locked:
            pass
          gin.parse_config('c12scope2/c12.f.y = 33')
        elif op == 'bind_tuple_x':
          if not self.locked:
            self.config['c12.f.x'] = repr(2)
            self.bad.clear()
          gin.bind_parameter(('', 'f', 'x'), 2)
        elif op == 'parse_y':
          if not self.locked:
            self.config['c12.f.y'] = repr(3)
            self.kinds.pop('y', None)
          gin.parse_config('c12.f.y = 3')
        elif op == 'parse_y_one':
          if not self.locked:
            self.config['c12.f.y'] = repr(1)
            self.kinds.pop('y', None)
          gin.parse_config('c12.f.y = 1')
        elif op == 'parse_block_z':
          if not self.locked:
            self.config['c12.f.z'] = repr(4)
            self.kinds.pop('z', None)
          gin.parse_config('c12.f:\n  z = 4\n')
        elif op == 'parse_macro_y_evaluated':
          if not self.locked:
            self.config['c12.f.y'] = '%nomacro'
            self.kinds['y'] = 'macro'
          gin.parse_config('c12.f.y = %nomacro')
        elif op == 'parse_macro_y_short_ref':
          if not self.locked:
            self.config['c12.f.y'] = '%nomacro'
            self.kinds['y'] = 'macro'
          gin.parse_config('c12.f.y = @nomacro/macro()')     # same macro, reference spelled with the short name
        elif op == 'parse_macro_z_unevaluated':
          if not self.locked:
            self.config['c12.f.z'] = '@nomacro/macro'
            self.kinds['z'] = 'uneval'
          gin.parse_config('c12.f.z = @nomacro/macro')
        elif op == 'parse_macro_z_dictkey':
          if not self.locked:
            self.config['c12.f.z'] = '{%nomacro: 1}'
            self.kinds['z'] = 'macro'
          gin.parse_config('c12.f.z = {%nomacro: 1}')      # the macro is the KEY of a dict value
        elif op == 'define_macro':
          if not self.locked:
            self.macro_defined = True
          gin.parse_config('nomacro = 5')
        elif op == 'parse_unbound_macro':
          if not self.locked:
            self.config['c12.f.x'] = '%nomacro'
            self.bad = {'macro'}
          gin.parse_config('c12.f.x = %nomacro')
        elif op == 'parse_placeholder':
          if not self.locked:
            self.config['c12.f.x'] = 'PLACEHOLDER'
            self.bad = {'placeholder'}
          gin.parse_config('c12.f.x = @no_such_fn()', skip_unknown=True)
        elif op == 'parse_placeholder_in_macro':
          if not self.locked:
            self.kinds['holder'] = 'placeholder_in_macro'     # the unknown reference sits (nested) in a macro's VALUE
          gin.parse_config("holder = {'k': [@no_such_fn]}", skip_unknown=True)
        elif op == 'parse_required':
          if not self.locked:
            self.config['c12.f.x'] = '%gin.REQUIRED'
            self.bad = {'required'}
          gin.parse_config('c12.f.x = %gin.REQUIRED')
      elif op == 'register':
        mutator = True
        name = 'late%d' % self.nreg
        if self.locked:
          exp_out = 'RuntimeError'
        else:
          self.nreg += 1

        def late():
          return None
        late.__name__ = name
        gin.external_configurable(late, name=name, module='c12')
      elif op == 'reregister_existing':
        # the very same function under the name it already has (now with a list): a registration like any other
        mutator = True
        if self.locked:
          exp_out = 'RuntimeError'
        gin.external_configurable(HELPER, name='helper12', module='c12', denylist=['q'])
      elif op == 'register_class_with_method':
        mutator = True
        if self.locked:
          exp_out = 'RuntimeError'
        else:
          self.km_registered = True
        gin.register(self.KM)
      elif op == 'clear':
        self.locked = False
        self.config.clear()
        self.bad.clear()
        self.kinds.clear()
        self.macro_defined = False
        gin.clear_config()
      elif op.startswith('hook_'):
        self.hooks.append(op)
        gin.config.register_finalize_hook(_hook(op))
      out = 'ok'
    except RuntimeError as e:
      out = 'RuntimeError'
    except ValueError as e:
      out = 'ValueError'
    except Boom:
      out = 'Boom'
    except Exception as e:  # pylint: disable=broad-except
      out = 'other:' + type(e).__name__
    if res is None:
      return
    res.outcome('%s:%s' % (op.split('_')[0], out))
    if out != exp_out:
      res.violation('outcome:%s' % op, 'history %r: %s -> %s, LockModel expects %s' % (hist, op, out, exp_out), hist)
    got, exp = self.observe(), self.expected()
    # placeholders / macros are compared by kind, not by repr
    for k in UNIVERSE:
      if exp[k] == 'PLACEHOLDER' and got[k] is not None and 'UnknownConfigurableReference' in got[k]:
        got[k] = 'PLACEHOLDER'
      if exp[k] == '@nomacro/macro' and got[k] is not None and got[k].startswith('@nomacro/') and not got[k].endswith('()'):
        got[k] = '@nomacro/macro'
    if got != exp:
      sig = 'state:%s' % op
      if got['locked'] != exp['locked']:
        sig = 'lock_flag:%s' % op
      res.violation(sig, 'history %r: after %s observed %r, LockModel %r' % (hist, op, got, exp), hist)
    if op == 'register':
      try:
        gin.get_configurable('c12.late%d' % (self.nreg - 1 if exp_out == 'ok' else self.nreg))
        present = True
      except (ValueError, KeyError):
        present = False
      if present != (exp_out == 'ok'):
        res.violation('register_state', 'history %r: late configurable present=%s after %s' % (hist, present, out),
                      hist)
    # witnesses
    if out == exp_out:
      if exp_out == 'RuntimeError' and op in ('bind_x', 'parse_y', 'bind_tuple_x', 'parse_block_z'):
        res.w('locked_bind_rejected')
      if exp_out == 'RuntimeError' and op in ('register', 'register_class_with_method'):
        res.w('locked_register_rejected')
      if op == 'unlock_exit_ok' and exp['locked']:
        res.w('unlock_restores_locked')
      if op == 'unlock_exit_raise' and exp['locked'] and got['locked']:
        res.w('raising_body_restores')
      if op == 'unlock_enter' and len(self.stack) == 2:
        res.w('nested_unlock')
      if op == 'finalize' and exp_out == 'ok' and any(h in ('hook_y7', 'hook_z', 'hook_y8_other_spelling')
                                                     for h in self.hooks):
        res.w('hook_binding_applied')
      if op == 'finalize' and exp_out == 'ValueError' and {'hook_y7', 'hook_y8_other_spelling'} <= set(self.hooks):
        res.w('hook_conflict_rejected')
      if op == 'finalize' and exp_out == 'RuntimeError':
        res.w('finalize_twice_rejected')
      if op == 'finalize' and exp_out == 'ValueError' and self.bad and not got['locked']:
        res.w('bad_config_rejected_unlocked')
      if op == 'finalize' and exp_out == 'ValueError' and set(self.kinds.values()) == {'macro', 'uneval'} and \
          self.macro_defined:
        res.w('unevaluated_after_evaluated_rejected')
      if op == 'finalize' and exp_out == 'Boom' and not got['locked']:
        res.w('hook_raises_leaves_unlocked')
      if op == 'clear' and before_model['locked']:
        res.w('clear_unlocks')


def run(ctx):
  res = core.Result()
  res.extra['alphabet'] = OPS
  bfs.run_bfs(ctx, __import__('checks.c12', fromlist=['x']), 4 if ctx.quick else 5, res,
              max_states=200000 if ctx.quick else 1500000)
  return res


def replay(hist):
  return bfs.replay_history(__import__('checks.c12', fromlist=['x']), hist)
