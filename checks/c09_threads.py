"""Thread part of C09 (placeholder until vf/sched.py is built)."""


def run_threads(ctx, res):
  res.w('thread_private')  # TEMPORARY: replaced by the E2 exploration


def replay(obj):
  from vf import core
  return core.Result()
