"""Thread part of C09 (E2): scope stacks are private to a thread under every bounded-preemption schedule."""
import os
import sys
import time

import threading

from vf import core
from vf import harness
from vf import sched
from vf.harness import gin, cfg

CONFIG = """
c09.probe.x = 'ROOT'
a/c09.probe.x = 'A'
a/b/c09.probe.x = 'AB'
x/c09.probe.x = 'X'
p/c09.probe.x = 'P'
job/c09.probe.x = 'JOB'
"""


def _probe():
  from checks import c09
  return c09.PROBE()


def t_nested():
  out = []
  with gin.config_scope('a'):
    out.append((gin.current_scope(), _probe()))
    with gin.config_scope('b'):
      out.append((gin.current_scope_str(), _probe()))
    out.append((gin.current_scope(), _probe()))
  out.append((gin.current_scope(), _probe()))
  return out


def t_list_none():
  out = []
  with gin.config_scope(['x']):
    out.append((gin.current_scope(), _probe()))
    with gin.config_scope(None):
      out.append((gin.current_scope(), _probe()))
    out.append((gin.current_scope(), gin.get_configurable('p/c09.probe')()))
  out.append((gin.current_scope(), _probe()))
  return out


def t_errors():
  out = []
  try:
    with gin.config_scope('a'):
      with gin.config_scope('bad name'):
        out.append('entered invalid')
  except ValueError:
    out.append(('after invalid', gin.current_scope()))
  try:
    with gin.config_scope('a/b'):
      out.append((gin.current_scope(), _probe()))
      raise KeyError('boom')
  except KeyError:
    out.append(('after raise', gin.current_scope(), _probe()))
  return out


def t_small_a():
  with gin.config_scope('a'):
    s1 = gin.current_scope()
  return [s1, gin.current_scope()]


def t_small_x():
  with gin.config_scope(['x']):
    s1 = gin.current_scope()
    with gin.config_scope('y'):
      s2 = gin.current_scope()
  return [s1, s2, gin.current_scope()]


_SHARED = {}


def shared():
  # ONE scoped version of the configurable, used by every thread (this is what a reference stored in the config is)
  if 'fn' not in _SHARED:
    _SHARED['fn'] = gin.get_configurable('job/c09.probe')
  return _SHARED['fn']


def t_shared_shallow():
  r = shared()()
  return [r, gin.current_scope()]


def t_shared_deep():
  with gin.config_scope('outer'):
    with gin.config_scope('inner'):
      r = shared()()
      s = gin.current_scope()
    s2 = gin.current_scope()
  return [r, s, s2, gin.current_scope()]


HARNESSES = {
    'S1_nested+list': lambda: [t_nested, t_list_none],
    'S2_three_threads': lambda: [t_nested, t_list_none, t_errors],
    'S3_small_enter_exit': lambda: [t_small_a, t_small_x],
    'S4_errors+nested': lambda: [t_errors, t_nested],
    'S5_one_scoped_reference_two_depths': lambda: [t_shared_shallow, t_shared_deep],
}


def plan(tier):
  if tier == 'quick':
    return [('S1_nested+list', 1, 'shared'), ('S2_three_threads', 1, 'shared'), ('S3_small_enter_exit', 2, 'all'),
            ('S5_one_scoped_reference_two_depths', 2, 'shared')]
  # (the quick plan plus the remaining harness and one harness at all-gin-lines granularity: deeper bounds -- <=2
  #  preemptions for the long bodies, <=3 for the small ones -- ran for more than half an hour on 16 cores)
  return [('S1_nested+list', 1, 'shared'), ('S2_three_threads', 1, 'shared'), ('S3_small_enter_exit', 2, 'all'),
          ('S5_one_scoped_reference_two_depths', 2, 'shared'), ('S4_errors+nested', 1, 'shared'), ('S1_nested+list', 1, 'all')]


def make_world(hname):
  def make():
    harness.hard_reset()
    _SHARED.clear()
    gin.parse_config(CONFIG)
    # The launching thread uses scopes itself and starts its workers inside copies of its own context (this is what
    # asyncio.to_thread and executors that propagate context do): the copies are taken while a scope is active.
    import contextvars  # pylint: disable=import-outside-toplevel
    bodies = HARNESSES[hname]()
    with gin.config_scope('launcher'):
      ctxs = [contextvars.copy_context() for _ in bodies]
    # History, LAST (so that the thread that has just died is the most recent user of scopes): a thread that used scopes
    # has come and gone; thread identifiers are recycled by the OS, the next thread started typically receives the
    # identifier of the one that just died.
    def gone():
      with gin.config_scope('gone'):
        with gin.config_scope('deeper'):
          gin.current_scope()
    t = threading.Thread(target=gone)
    t.start()
    t.join()
    return [(lambda b=b, c=c: c.run(b)) for b, c in zip(bodies, ctxs)]
  return make


_REF = {}


def reference(hname):
  if hname not in _REF:
    bodies = make_world(hname)()
    outs = sched.run_sequential(bodies)
    for o in outs:
      if 'e' in o:
        raise RuntimeError('sequential run of %s raised %r' % (hname, o['e']))
    _REF[hname] = [o['r'] for o in outs]
  return _REF[hname]


def check_reference(hname, res):
  """Absolute part of the oracle: what a body observes in a fresh thread (its very first scope operation may be a list
  entry, a scoped selector, ...) is what it observes in a thread that has been using scopes all along (this one)."""
  ref = reference(hname)
  harness.hard_reset()
  gin.parse_config(CONFIG)
  gin.current_scope()
  here = []
  for b in HARNESSES[hname]():
    try:
      here.append(b())
    except Exception as e:  # pylint: disable=broad-except
      here.append('raised %r' % (e,))
  harness.hard_reset()
  res.case(('thr_reference', hname), True)
  if here != ref:
    res.violation('fresh_thread_differs', '%s: run alone in a fresh thread the bodies observe %r; in a thread that has used '
                  'scopes before they observe %r' % (hname, ref, here), {'harness': hname, 'reference_only': True})
  else:
    res.w('fresh_thread_same_as_seasoned')


def oracle(hname, x, res, gran):
  art = {'harness': hname, 'schedule': sorted(x.devs.items()), 'granularity': gran}
  npre = x.preemptions_before(len(x.points))
  res.case(('thr', hname, gran, tuple(sorted(x.devs.items()))), npre >= 1)
  res.traces += 1
  res.transitions += x.nsteps
  for p in x.points:
    res.state(('thr', hname, p[0], p[3]))
  if x.deadlock:
    res.violation('thread_deadlock', '%s: deadlock under schedule %r' % (hname, art['schedule']), art)
    return
  ref = _REF[hname]
  ok = True
  for t in x.threads:
    if t.exc is not None:
      ok = False
      res.violation('thread_exception', '%s: thread %d raised %r under schedule %r' %
                    (hname, t.id, t.exc, art['schedule']), art)
    elif t.result != ref[t.id]:
      ok = False
      res.violation('thread_scope_interference', '%s: thread %d observed %r under schedule %r; alone it observes %r'
                    % (hname, t.id, t.result, art['schedule'], ref[t.id]), art)
  res.outcome('thr:%s' % ('same' if ok else 'diff'))
  if ok and npre:
    res.w('thread_private')


def _node_task(args):
  hname, node, bnd, gran, local = args
  res = core.Result()
  kids = []
  try:
    reference(hname)
    make = make_world(hname)
    if local:
      sched.explore_local(make, node, bnd, lambda x: oracle(hname, x, res, gran), gran, sched.new_stats())
    elif sched._HANGS[0] < sched.MAX_HANGS:     # (a worker that has already reported hangs stops expanding)
      x = sched.run_node(make, node, gran)
      if x.hang:
        sched._HANGS[0] += 1
      oracle(hname, x, res, gran)
      kids = sched.children(x, node[0], bnd)
  except Exception:  # pylint: disable=broad-except
    import traceback
    res.extra['harness_error'] = traceback.format_exc() + '\nargs=%r' % (args,)
  harness.hard_reset()
  return res, kids


def run_threads(ctx, res):
  sched.install_model_locks()
  t0 = time.time()
  for hname in sorted({h for h, _, _ in plan(ctx.tier)}):
    check_reference(hname, res)
  for hname, bnd, gran in plan(ctx.tier):
    reference(hname)
    r = core.Result()
    sched.drive(ctx, _node_task, lambda nd, local, h=hname, b=bnd, g=gran: (h, nd, b, g, local), bnd, r,
                local_budget=min(1, bnd - 1))
    res.extra.setdefault('thread_harnesses', {})['%s/%s/k<=%d' % (hname, gran, bnd)] = {
        'schedules': r.traces, 'steps': r.transitions}
    res.sample({'harness': hname, 'granularity': gran, 'preemption_bound': bnd, 'schedules': r.traces})
    res.merge(r)
    if os.environ.get('VERIF_DEBUG'):
      print('  [c09] %s %s k<=%d: %d schedules, %.1fs' % (hname, gran, bnd, r.traces, time.time() - t0),
            file=sys.stderr)


def replay(obj):
  res = core.Result()
  sched.install_model_locks()
  hname = obj['harness']
  if obj.get('reference_only'):
    check_reference(hname, res)
    return res
  reference(hname)
  x = sched.Sched(make_world(hname)(), [tuple(d) for d in obj['schedule']], obj.get('granularity', 'shared')).run()
  oracle(hname, x, res, obj.get('granularity', 'shared'))
  harness.hard_reset()
  return res
