"""C01 — injected arguments: caller's values over scope-layered bindings.

E3 bounded-exhaustive enumeration: signature shape x registration/lookup path x every subset of binding
scopes per parameter x every active scope list (entered in every way) x every split of the arguments into
positional / keyword / omitted.  Oracle: CallModel (caller value by identity > longest-prefix binding >
function default; Python's own TypeError when a required parameter has no source).
"""
import itertools

from vf import core
from vf import harness
from vf.harness import gin, cfg

ID = 'C01'
LEVEL = 'exploration'
RULE = ('product of (signature shape, registration path, call path, binding subset per parameter over the scope '
        'path set P, active scope list of length<=L, entry form, argument split); one evaluation = one real call '
        'compared with CallModel (+ get_bindings/query_parameter per (binding set, scope)). Non-trivial = at least '
        'one binding exists and (it applies, or is shadowed by a caller value, or sits under a non-prefix scope).')
ASSUMPTIONS = ['scope alphabet {s,t,(u)}; at most 2 varied parameters (+1 **kwargs name) per signature',
               'probe bodies only record their arguments', 'hard reset by vf/harness.py (validated in C20)']
WITNESSES = ['longer_prefix_overrides', 'nonprefix_ignored', 'positional_beats_binding', 'keyword_beats_binding',
             'default_left_alone', 'binding_applied', 'missing_required_typeerror', 'varkw_binding',
             'scoped_selector_replaces_scope', 'class_shape', 'method_shape', 'history_failed_required_call', 'rebound_after_finalize']

REC = []
SHAPES = {}


class EqAll:
  """Compares equal to everything (like unittest.mock.ANY)."""
  def __eq__(self, other):
    return True

  def __ne__(self, other):
    return False
  __hash__ = None


class EqRaises:
  """Comparison gives something whose truth value is ambiguous (like a numpy array)."""
  def __eq__(self, other):
    return self

  def __bool__(self):
    raise ValueError('The truth value of an array is ambiguous')
  __hash__ = None


def caller_value(i):
  """Caller-supplied values: mostly plain objects, sometimes objects with an unusual __eq__ / None."""
  return (object(), EqAll(), object(), EqRaises(), None)[i % 5]


class Shape:
  def __init__(self, name, sig, pos, defaults, kwonly, varargs, varkw, p1, p2, kind):
    self.name, self.sig, self.pos, self.defaults = name, sig, pos, defaults
    self.kwonly, self.varargs, self.varkw, self.p1, self.p2, self.kind = kwonly, varargs, varkw, p1, p2, kind
    self.required = [p for p in pos + kwonly if p not in defaults]
    self.targets = {}  # reg path -> dict(call=callable under ambient scope, orig=..., selector=...)


SPECS = [
    # name, signature text, positional names, defaults, kwonly names, *args, **kw, p1, p2
    ('plain', 'a, b', ['a', 'b'], {}, [], False, False, 'a', 'b'),
    ('dflt', "a, b='db', c='dc'", ['a', 'b', 'c'], {'b': 'db', 'c': 'dc'}, [], False, False, 'a', 'b'),
    ('kwonly', "a, *, k='dk', r='dr'", ['a'], {'k': 'dk', 'r': 'dr'}, ['k', 'r'], False, False, 'a', 'k'),
    ('kwreq', 'a, *, k', ['a'], {}, ['k'], False, False, 'a', 'k'),
    ('vargs', "a, b='db', *args", ['a', 'b'], {'b': 'db'}, [], True, False, 'a', 'b'),
    ('vkw', "a, b='db', **kw", ['a', 'b'], {'b': 'db'}, [], False, True, 'a', 'b'),
    ('allin', "a, b='db', *args, k='dk', **kw", ['a', 'b'], {'b': 'db', 'k': 'dk'}, ['k'], True, True, 'b', 'k'),
    # parameter names that helpers inside a library like to use for themselves
    ('kwnames', "fn='dfn', scope='dsc', *, name='dn'", ['fn', 'scope'], {'fn': 'dfn', 'scope': 'dsc', 'name': 'dn'}, ['name'], False,
     False, 'fn', 'scope'),
]


def _mutate(v):
  if isinstance(v, list):
    v.append('consumed')
  elif isinstance(v, tuple):
    for x in v:
      _mutate(x)


def seen(v):
  """What a callee that received a private copy of the bound value `v` holds after consuming it (see _scribble)."""
  if isinstance(v, list):
    return list(v) + ['consumed']
  if isinstance(v, tuple):
    return tuple(seen(x) for x in v)
  return v


def _scribble(rec=None):
  """What gin.current_scope() hands out belongs to the caller: a callee that edits it changes nothing in Gin.  Nor does
  a callee that consumes (mutates) the mutable parts of the values it was given: the next call receives the bound
  value again."""
  sc = gin.current_scope()
  sc.append('s')
  sc.insert(0, 't')
  for k, v in (rec or {}).items():
    if k not in ('args', 'kw'):
      _mutate(v)


def _mk_fn(name, sig, names, varargs, varkw):
  rec = ', '.join('%s=%s' % (n, n) for n in names)
  if varargs:
    rec += ', args=args'
  if varkw:
    rec += ', kw=kw'
  ns = {'REC': REC, 'SCRIBBLE': _scribble}
  exec('def %s(%s):\n  REC.append(dict(%s))\n  SCRIBBLE(REC[-1])\n  return "ret"\n' % (name, sig, rec), ns)  # pylint: disable=exec-used
  fn = ns[name]
  fn.__module__ = 'c01probes'
  return fn


def _mk_cls(name, sig, names, varargs, varkw, how):
  rec = ', '.join('%s=%s' % (n, n) for n in names)
  if varargs:
    rec += ', args=args'
  if varkw:
    rec += ', kw=kw'
  ns = {'REC': REC, 'SCRIBBLE': _scribble}
  if how == 'init':
    src = 'class %s:\n  def __init__(self, %s):\n    REC.append(dict(%s))\n    SCRIBBLE(REC[-1])\n' % (name, sig, rec)
  else:
    src = ('class %s:\n  def __new__(cls, %s):\n    REC.append(dict(%s))\n    SCRIBBLE(REC[-1])\n    return super().__new__(cls)\n' %
           (name, sig, rec))
  exec(src, ns)  # pylint: disable=exec-used
  c = ns[name]
  c.__module__ = 'c01probes'
  return c


def setup():
  for (name, sig, pos, defaults, kwonly, va, vk, p1, p2) in SPECS:
    names = pos + kwonly
    for reg in ('configurable', 'external', 'register'):
      sh = Shape(name, sig, pos, defaults, kwonly, va, vk, p1, p2, 'fn')
      cname = '%s_%s' % (name, reg[:3])
      fn = _mk_fn(cname, sig, names, va, vk)
      if reg == 'configurable':
        w = gin.configurable(fn)
        sh.call = w
        sh.orig = w
      elif reg == 'external':
        w = gin.external_configurable(fn, name=cname, module='c01probes')
        sh.call = w
        sh.orig = fn
      else:
        gin.register(fn)
        sh.call = None  # only reachable through get_configurable / references
        sh.orig = fn
      sh.cname = cname
      sh.reg = reg
      SHAPES[cname] = sh
  # classes: positional list starts after self/cls
  for how in ('init', 'new'):
    for reg in ('configurable', 'external', 'register'):
      cname = 'K%s_%s' % (how, reg[:3])
      sh = Shape('class_' + how, "a, b='db', *, k='dk'", ['a', 'b'], {'b': 'db', 'k': 'dk'}, ['k'], False, False,
                 'a', 'k' if reg != 'external' else 'b', 'class')
      c = _mk_cls(cname, sh.sig, ['a', 'b', 'k'], False, False, how)
      if reg == 'configurable':
        w = gin.configurable(c)
        sh.call, sh.orig = w, w
      elif reg == 'external':
        w = gin.external_configurable(c, name=cname, module='c01probes')
        sh.call, sh.orig = w, c
      else:
        gin.register(c)
        sh.call, sh.orig = None, c
      sh.cname, sh.reg = cname, reg
      SHAPES[cname] = sh
  # a configurable subclass that inherits an (already configurable) constructor
  base = _mk_cls('KBase_for_sub', "a, b='db', *, k='dk'", ['a', 'b', 'k'], False, False, 'init')
  base = gin.configurable(base)
  sub = type('Ksub_con', (base,), {'__module__': 'c01probes'})
  sub = gin.configurable(sub)
  sh = Shape('class_sub', "a, b='db', *, k='dk'", ['a', 'b'], {'b': 'db', 'k': 'dk'}, ['k'], False, False, 'a', 'k', 'class')
  sh.cname, sh.reg, sh.call, sh.orig = 'Ksub_con', 'configurable', sub, sub
  SHAPES['Ksub_con'] = sh
  # functions already wrapped by an ordinary functools.wraps decorator
  import functools  # pylint: disable=import-outside-toplevel

  def user_deco(fn):
    @functools.wraps(fn)
    def wrapper(*args, **kwargs):
      return fn(*args, **kwargs)
    return wrapper
  for reg in ('configurable', 'external'):
    cname = 'deco_%s' % reg[:3]
    fn = user_deco(_mk_fn(cname, "a, b='db', *, k='dk'", ['a', 'b', 'k'], False, False))
    sh = Shape('decorated', "a, b='db', *, k='dk'", ['a', 'b'], {'b': 'db', 'k': 'dk'}, ['k'], False, False, 'b', 'k', 'fn')
    if reg == 'configurable':
      w = gin.configurable(fn)
      sh.call, sh.orig = w, w
    else:
      w = gin.external_configurable(fn, name=cname, module='c01probes')
      sh.call, sh.orig = w, fn
    sh.cname, sh.reg = cname, reg
    SHAPES[cname] = sh
  # a registered method on a registered class
  ns = {'REC': REC, 'gin': gin, 'SCRIBBLE': _scribble}
  exec('class KM:\n'
       '  def __init__(self):\n    pass\n'
       '  def meth(self, a, b="db", *, k="dk"):\n    REC.append(dict(a=a, b=b, k=k))\n    SCRIBBLE(REC[-1])\n    return "ret"\n', ns)
  KM = ns['KM']
  KM.__module__ = 'c01probes'
  KM.meth.__module__ = 'c01probes'
  KM.meth.__qualname__ = 'KM.meth'
  gin.register(KM.meth)
  gin.register(KM)
  sh = Shape('method', "a, b='db', *, k='dk'", ['a', 'b'], {'b': 'db', 'k': 'dk'}, ['k'], False, False,
             'a', 'k', 'method')
  sh.cname, sh.reg, sh.call, sh.orig = 'KM.meth', 'register', None, KM
  SHAPES['KM.meth'] = sh
  # a second class of the same module with a registered method of the same name (registered later): its bindings
  # are its own, KM.meth keeps receiving KM.meth's
  exec('class KM2:\n'
       '  def __init__(self):\n    pass\n'
       '  def meth(self, a="da2", b="db2", *, k="dk2"):\n    return "ret2"\n', ns)
  KM2 = ns['KM2']
  KM2.__module__ = 'c01probes'
  KM2.meth.__module__ = 'c01probes'
  KM2.meth.__qualname__ = 'KM2.meth'
  gin.register(KM2.meth)
  gin.register(KM2)

  # one wraps-decorated method made configurable in BOTH shapes -- the function found on the class (the caller passes
  # the receiver) and the bound method of an instance (the receiver is supplied) -- in either order; the shape that
  # came second is the one enumerated (anything remembered per underlying function would show there)
  for order in ('fn_first', 'bound_first'):
    kname = 'KB_' + order
    exec('class %s:\n'
         '  def step(recv, a, b="db", *, k="dk"):\n    REC.append(dict(recv=recv, a=a, b=b, k=k))\n    SCRIBBLE(dict(a=a, b=b, k=k))\n    return "ret"\n'
         % kname, ns)
    KB = ns[kname]
    KB.__module__ = 'c01probes'
    KB.step.__module__ = 'c01probes'
    KB.step = user_deco(KB.step)
    inst = KB()
    bound_m = inst.step

    def reg_fn():
      w = gin.external_configurable(KB.step, name=kname + '_fn', module='c01probes')
      w('r', 'a', 'b', k='k')
      return w

    def reg_bound():
      w = gin.external_configurable(bound_m, name=kname + '_bound', module='c01probes')
      w('a', 'b', k='k')
      return w
    if order == 'fn_first':
      reg_fn()
      w = reg_bound()
      sh = Shape('bound_deco_method', "a, b='db', *, k='dk'", ['a', 'b'], {'b': 'db', 'k': 'dk'}, ['k'], False, False,
                 'a', 'k', 'fn')
      sh.cname, sh.reg, sh.call, sh.orig = kname + '_bound', 'external', w, bound_m
    else:
      reg_bound()
      w = reg_fn()
      sh = Shape('fn_deco_method', "recv, a, b='db', *, k='dk'", ['recv', 'a', 'b'], {'b': 'db', 'k': 'dk'}, ['k'], False,
                 False, 'a', 'k', 'fn')
      sh.cname, sh.reg, sh.call, sh.orig = kname + '_fn', 'external', w, KB.step
    SHAPES[sh.cname] = sh
  del REC[:]

  @gin.configurable(module='c01probes')
  def consumer(fn=None):
    return fn

  @gin.configurable(module='c01probes')
  def boom(kind=0):
    raise [KeyboardInterrupt, SystemExit, GeneratorExit][kind % 3]('boom')
  global CONSUMER
  CONSUMER = consumer


def bound(tier):
  if tier == 'quick':
    return "P={'',s,s/t,t} for p1, {'',s/t} for p2, {s} for **kw name; active scopes: all lists len<=2 over {s,t}"
  return ("P={'',s,s/t,s/t/u,t,s/u} for p1, {'',s/t,s/t/u} for p2, {s,t} for **kw name; active scopes: all lists "
          "len<=3 over {s,t,u} (+ one depth-4)")


def params(tier):
  if tier == 'quick':
    return (['', 's', 's/t', 't'], ['', 's/t'], ['s'],
            [list(t) for n in range(3) for t in itertools.product('st', repeat=n)] +
            # scope names of which a bound scope's name is a mere STRING prefix: not a prefix of the active scope
            [['sx'], ['s_1', 't'], ['t', 'st']])
  act = [list(t) for n in range(4) for t in itertools.product('stu', repeat=n)] + [['s', 't', 'u', 's']] + [
      ['sx'], ['s_1', 't'], ['t', 'st'], ['s', 'tx'], ['sx', 't']]
  return (['', 's', 's/t', 's/t/u', 't', 's/u'], ['', 's/t', 's/t/u'], ['s', 't'], act)


def subsets(xs):
  for n in range(len(xs) + 1):
    for c in itertools.combinations(xs, n):
      yield list(c)


def splits(sh):
  """All legal (positional names, keyword names, extra positional, extra keyword) splits for p1/p2."""
  out = []
  pos_params = sh.pos
  varied = sh.pos + sh.kwonly
  # modes per parameter: the two varied ones take every mode; the others are passed by the caller only when the
  # signature requires them (so that calls are not vacuous TypeErrors), positionally if that keeps the prefix rule.
  choices = []
  for p in varied:
    if p in (sh.p1, sh.p2):
      choices.append(['pos', 'kw', 'omit'] if p in pos_params else ['kw', 'omit'])
    elif p in sh.required:
      choices.append(['pos', 'kw'] if p in pos_params else ['kw'])
    else:
      choices.append(['omit'])
  for modes in itertools.product(*choices):
    m = dict(zip(varied, modes))
    # positional prefix rule: params before a positional one must be positional too.
    npos = 0
    ok = True
    for i, p in enumerate(pos_params):
      if m.get(p) == 'pos':
        if any(m.get(q) != 'pos' for q in pos_params[:i]):
          ok = False
        npos = i + 1
    if not ok:
      continue
    for xpos in ([0, 1] if sh.varargs and npos == len(pos_params) else [0]):
      for xkw in ([0, 1] if sh.varkw else [0]):
        out.append((m, npos, xpos, xkw))
  return out


class Bindings(dict):
  """(scope, parameter) -> bound object, plus a private copy of each value taken when it was bound."""

  def __init__(self, items=()):
    super().__init__()
    self.pristine = {}
    for k, v in dict(items).items():
      self[k] = v

  def __setitem__(self, k, v):
    import copy  # pylint: disable=import-outside-toplevel
    self.pristine[k] = copy.deepcopy(v)
    super().__setitem__(k, v)


def overlay(bindings, eff):
  ov = {}
  for i in range(len(eff) + 1):
    sc = '/'.join(eff[:i])
    for (s, p), v in bindings.items():
      if s == sc:
        ov[p] = bindings.pristine[(s, p)]  # (the stored object must never be what a callee gets to consume)
  return ov


def run_call(sh, fn, split, bindings, eff, res, desc):
  """Calls `fn` (already the right callable, invoked by the caller in the right ambient scope) -> compare."""
  m, npos, xpos, xkw = split
  salt = npos + xpos + len(eff) + len(bindings)
  pos_vals = [caller_value(salt + i) for i in range(npos)]
  extra = [caller_value(salt + 3 + j) for j in range(xpos)]
  kw_vals = {p: caller_value(salt + 1 + j) for j, (p, mode) in enumerate(sorted(m.items())) if mode == 'kw'}
  if xkw:
    kw_vals['w'] = object()
  ov = overlay(bindings, eff)
  expect = {}
  for i in range(npos):
    expect[sh.pos[i]] = ('id', pos_vals[i])
  for k, v in kw_vals.items():
    expect[k] = ('id', v)
  for p, v in ov.items():
    if p not in expect:
      expect[p] = ('eq', v)
  missing = [p for p in sh.required if p not in expect]
  del REC[:]
  try:
    ret = fn(*(pos_vals + extra), **kw_vals)
    out = 'ok'
  except TypeError as e:
    ret, out = e, 'TypeError'
  except Exception as e:  # pylint: disable=broad-except
    ret, out = e, type(e).__name__
  # witnesses / non-triviality
  nontrivial = bool(bindings)
  res.case(desc, nontrivial)
  res.outcome(out)
  if missing:
    if out != 'TypeError' or REC:
      res.violation('missing_required_not_typeerror', '%s: required %r without source -> %s %r, body ran=%s' %
                    (desc, missing, out, ret, bool(REC)), desc)
    else:
      res.w('missing_required_typeerror')
    return
  if out != 'ok' or len(REC) != 1:
    res.violation('call_failed', '%s: expected success, got %s %r (records=%d)' % (desc, out, ret, len(REC)), desc)
    return
  got = REC[0]
  names = sh.pos + sh.kwonly
  for p in names:
    if p in expect:
      how, v = expect[p]
      if how == 'id':
        if got[p] is not v:
          res.violation('caller_value_not_delivered', '%s: parameter %s: caller value replaced by %r' %
                        (desc, p, got[p]), desc)
        elif p in ov:
          res.w('positional_beats_binding' if p in sh.pos[:npos] else 'keyword_beats_binding')
      else:
        if isinstance(got[p], (EqAll, EqRaises)) or got[p] != seen(v):
          res.violation('wrong_binding', '%s: parameter %s received %r, model says binding %r (overlay of %r)' %
                        (desc, p, got[p], v, eff), desc)
        else:
          res.w('binding_applied')
          if sum(1 for (s, q) in bindings if q == p and (s == '' or ('/'.join(eff) + '/').startswith(s + '/'))) > 1:
            res.w('longer_prefix_overrides')
    else:
      if isinstance(got[p], (EqAll, EqRaises)) or got[p] != sh.defaults[p]:
        res.violation('default_overridden', '%s: parameter %s has no source but received %r (default %r)' %
                      (desc, p, got[p], sh.defaults[p]), desc)
      else:
        res.w('default_left_alone')
        if any(q == p for (_, q) in bindings):
          res.w('nonprefix_ignored')
  if sh.varargs and (len(got['args']) != len(extra) or any(x is not y for x, y in zip(got['args'], extra))):
    res.violation('varargs_changed', '%s: *args received %r' % (desc, got['args']), desc)
  if sh.varkw:
    exp_kw = {k: v for k, (h, v) in expect.items() if k not in names}
    gk = got['kw']
    if set(gk) != set(exp_kw) or any(
        (gk[k] is not v) if expect[k][0] == 'id' else (isinstance(gk[k], (EqAll, EqRaises)) or gk[k] != v)
        for k, v in exp_kw.items()):
      res.violation('varkw_wrong', '%s: **kw received %r, model %r' % (desc, gk, exp_kw), desc)
    elif any(expect[k][0] == 'eq' for k in exp_kw):
      res.w('varkw_binding')


_FALSY = {'t': None, 's/t': 0, 's/u': '', 's/t/u': False}


def val(p, sc):
  """Tagged sentinel for the binding of p under scope sc; some scopes carry falsy values (None, 0, '', False),
  which are bound values like any other."""
  if sc in _FALSY and p != 'z':
    return _FALSY[sc]
  if sc == 's' and p != 'z':
    # a tuple nested in a tuple, holding a mutable part (built afresh on every call of val)
    return ((['%s@%s' % (p, sc)], 3), 'tag')
  return '%s@%s' % (p, sc)


def selector_of(sh):
  return 'c01probes.' + sh.cname


ENTRY_FORMS = ['nested', 'shorthand', 'list', 'list_in_outer', 'none_then_nested']


class enter:
  """Enters active scope list `scope` using one of the entry forms."""

  def __init__(self, scope, form):
    self.scope, self.form = scope, form
    self.stack = []

  def __enter__(self):
    sc, form = self.scope, self.form
    cms = []
    if form == 'nested' or not sc:
      if form in ('list',):
        cms = [gin.config_scope(list(sc))]
      elif form == 'list_in_outer':
        cms = [gin.config_scope('t/s'), gin.config_scope(list(sc))]
      elif form == 'none_then_nested':
        cms = [gin.config_scope('t'), gin.config_scope(None)] + [gin.config_scope(c) for c in sc]
      else:
        cms = [gin.config_scope(c) for c in sc]
    elif form == 'shorthand':
      cms = [gin.config_scope('/'.join(sc))]
    elif form == 'list':
      cms = [gin.config_scope(list(sc))]
    elif form == 'list_in_outer':
      cms = [gin.config_scope('t/s'), gin.config_scope(list(sc))]
    elif form == 'none_then_nested':
      cms = [gin.config_scope('t'), gin.config_scope(''), gin.config_scope(sc[0])] + (
          [gin.config_scope('/'.join(sc[1:]))] if sc[1:] else [])
    for cm in cms:
      cm.__enter__()
      self.stack.append(cm)
    return self

  def __exit__(self, *a):
    while self.stack:
      self.stack.pop().__exit__(None, None, None)


_ABORTS = [0]


def install(sh, sel, keys):
  """Hard reset, then bind tagged sentinels for the given (scope, param) keys and the consumer references."""
  harness.hard_reset()
  bindings = Bindings({(sc, p): val(p, sc) for sc, p in keys})
  for (sc, p), v in bindings.items():
    gin.bind_parameter((sc, sel, p), v)
  for ri, rsc in enumerate(['', 's', 's/t']):
    gin.bind_parameter(('r%d' % ri, 'c01probes.consumer', 'fn'),
                       cfg.ConfigurableReference((rsc + '/' if rsc else '') + sel, False))
  # History: a scoped configurable (reached by selector or through a reference) was aborted by an exception that is
  # not an Exception (Ctrl-C, SystemExit, GeneratorExit) and the program carried on.  Nothing of it may linger.
  n = core.h64(repr((sel, sorted(keys)))) % 6   # a function of the case, so replays agree
  gin.bind_parameter('c01probes.boom.kind', n)
  try:
    if n % 2:
      gin.get_configurable('s/t/c01probes.boom')()
    else:
      gin.bind_parameter(('rb', 'c01probes.consumer', 'fn'), cfg.ConfigurableReference('t/c01probes.boom', True))
      with gin.config_scope('rb'):
        CONSUMER()
  except BaseException:  # pylint: disable=broad-except
    pass
  return bindings


def exec_path(sh, sel, bindings, act, path, form, split, res, desc):
  eff = act
  if path == 'getconf_obj_out':
    with enter(act, form):
      fn = gin.get_configurable(sh.orig)
    run_call(sh, fn, split, bindings, act, res, desc)
  else:
    with enter(act, form):
      if path == 'direct':
        fn = sh.call
      elif path == 'method':
        with gin.config_scope(None):
          inst = gin.get_configurable(sh.orig)()
        fn = inst.meth
        res.w('method_shape')
      elif path == 'getconf_obj_in':
        fn = gin.get_configurable(sh.orig)
      elif path == 'getconf_sel':
        fn = gin.get_configurable(sel)
      elif path == 'getconf_sel_s':
        fn = gin.get_configurable('s/' + sel)
        eff = ['s']
      elif path == 'getconf_sel_st':
        fn = gin.get_configurable('s/t/' + sh.cname)
        eff = ['s', 't']
      elif path == 'ref':
        with gin.config_scope(['r0']):
          fn = CONSUMER()
      elif path == 'ref_s':
        with gin.config_scope(['r1']):
          fn = CONSUMER()
        eff = ['s']
      elif path == 'ref_st':
        with gin.config_scope(['r2']):
          fn = CONSUMER()
        eff = ['s', 't']
      if eff != act:
        res.w('scoped_selector_replaces_scope')
      if sh.kind == 'class':
        res.w('class_shape')
      run_call(sh, fn, split, bindings, eff, res, desc)
  if gin.current_scope() != []:
    res.violation('scope_leak', 'scope stack not restored after %r' % (desc,), desc)


NSPLIT = 4


def shards(tier):
  return [[c, i] for c in sorted(SHAPES) for i in range(NSPLIT)]


def run_shard(shard, tier, only=None):
  cname, part = shard
  res = core.Result()
  sh = SHAPES[cname]
  P1, P2, PZ, ACTIVE = params(tier)
  # History before the enumerated calls: one failed call (unfilled gin.REQUIRED) and one failed binding per shape.
  # Failure paths run code (error formatting, signature ordering) that the happy path never touches; anything they
  # leave behind in process-wide caches must not change later injection.
  harness.hard_reset()
  try:
    target = sh.call if sh.call is not None else gin.get_configurable(sh.orig)
    if sh.kind == 'method':
      target = gin.get_configurable(sh.orig)().meth
    target(*([gin.REQUIRED] * 1), **({'k': gin.REQUIRED} if 'k' in sh.kwonly else {}))
  except Exception:  # pylint: disable=broad-except
    res.w('history_failed_required_call')
  try:
    gin.bind_parameter(selector_of(sh) + '.no_such_param_', 1)
  except Exception:  # pylint: disable=broad-except
    pass
  sel = selector_of(sh)
  spl = splits(sh)
  zsets = list(subsets(PZ)) if sh.varkw else [[]]
  ref_scopes = ['', 's', 's/t']
  sample_done = False
  for i1, s1 in enumerate(subsets(P1)):
    if part is not None and i1 % NSPLIT != part:
      continue
    for s2 in subsets(P2):
      for sz in zsets:
        keys = [(sc, sh.p1) for sc in s1] + [(sc, sh.p2) for sc in s2] + [(sc, 'z') for sc in sz]
        bindings = install(sh, sel, keys)
        # query_parameter returns each stored binding
        for (sc, p), v in bindings.items():
          q = gin.query_parameter('%s%s.%s' % (sc + '/' if sc else '', sel, p))
          res.case(('query', cname, sc, p, tuple(sorted(bindings))), True)
          if q != v:
            res.violation('query_parameter', 'query %s/%s.%s -> %r, stored %r' % (sc, sel, p, q, v),
                          ['query', cname, sorted(map(list, bindings)), sc, p])
        for act in ACTIVE:
          bkey = (cname, tuple(sorted(bindings)), tuple(act))
          # -- get_bindings under the active scope
          with enter(act, 'nested'):
            if sh.kind != 'method':
              gb = gin.get_bindings(sh.orig)
              res.case(('get_bindings',) + bkey, bool(bindings))
              if gb != overlay(bindings, act):
                res.violation('get_bindings', 'get_bindings(%s) under %r -> %r, model %r' %
                              (cname, act, gb, overlay(bindings, act)), ['gb', cname, act])
              gbs = gin.get_bindings(sel, inherit_scopes=False)
              exact = {p: v for (s, p), v in bindings.items() if s == '/'.join(act)}
              if gbs != exact:
                res.violation('get_bindings_strict', 'get_bindings(%s, inherit_scopes=False) under %r -> %r, '
                              'model %r' % (cname, act, gbs, exact), ['gbs', cname, act])
          # -- call paths
          paths = []
          if sh.kind == 'method':
            paths = [('method', f) for f in ENTRY_FORMS]
          else:
            if sh.call is not None:
              paths += [('direct', f) for f in ENTRY_FORMS]
            paths += [('getconf_obj_in', 'nested'), ('getconf_obj_out', 'nested'),
                      ('getconf_sel', 'nested'), ('getconf_sel_s', 'nested'), ('getconf_sel_st', 'shorthand'),
                      ('ref', 'nested'), ('ref_s', 'list'), ('ref_st', 'nested')]
          for path, form in paths:
            if not act and form != 'nested':
              continue
            for split in spl:
              desc = [cname, sorted(map(list, bindings)), act, path, form,
                      sorted(split[0].items()), split[1], split[2], split[3]]
              if not sample_done and bindings and act and path != 'direct':
                res.sample({'case': desc})
                sample_done = True
              exec_path(sh, sel, bindings, act, path, form, split, res, desc)
        locked_phase(sh, sel, bindings, keys, ACTIVE, spl, res)
  harness.hard_reset()
  return res


def locked_phase(sh, sel, bindings, keys, ACTIVE, spl, res):
  """The same calls on a finalized configuration, then again after re-binding inside unlock_config: values bound
  later (also under a longer prefix, also for a parameter that had no binding) must reach the very next call."""
  path0 = 'direct' if sh.call is not None else ('method' if sh.kind == 'method' else 'getconf_obj_in')
  try:
    gin.finalize()
  except Exception as e:  # pylint: disable=broad-except
    res.extra['harness_error'] = 'finalize failed in locked_phase: %r' % (e,)
    return
  for stage in ('locked', 'rebound'):
    if stage == 'rebound':
      with gin.unlock_config():
        for (sc, p) in list(bindings):
          bindings[(sc, p)] = '%s@%s#2' % (p, sc)
          gin.bind_parameter((sc, sel, p), bindings[(sc, p)])
        for extra in (('s/t', sh.p1), ('', sh.p2)):
          if extra not in bindings:
            bindings[extra] = '%s@%s#new' % (extra[1], extra[0])
            gin.bind_parameter((extra[0], sel, extra[1]), bindings[extra])
    for act in ACTIVE:
      for split in spl:
        desc = [sh.cname, sorted(map(list, keys)), act, path0, 'nested', sorted(split[0].items()), split[1], split[2],
                split[3], stage]
        exec_path(sh, sel, bindings, act, path0, 'nested', split, res, desc)
  res.w('rebound_after_finalize')


def replay(desc):
  res = core.Result()
  if desc[0] in ('query', 'gb', 'gbs'):
    r = run_shard([desc[1], None], 'quick')      # (the whole shape: these observations depend on the calls made before)
    return r if r.violations else run_shard([desc[1], None], 'thorough')
  cname, keys, act, path, form, modes, npos, xpos, xkw = desc[:9]
  sh = SHAPES[cname]
  sel = selector_of(sh)
  bindings = install(sh, sel, [tuple(k) for k in keys])
  split = (dict((k, v) for k, v in modes), npos, xpos, xkw)
  if len(desc) > 9:
    P1, P2, PZ, ACTIVE = params('quick')
    locked_phase(sh, sel, bindings, [tuple(k) for k in keys], ACTIVE, splits(sh), res)
    harness.hard_reset()
    return res
  # (in the enumeration every call but the first of an installation follows other calls: replay it after one identical call)
  exec_path(sh, sel, bindings, act, path, form, split, core.Result(), desc)
  exec_path(sh, sel, bindings, act, path, form, split, res, desc)
  harness.hard_reset()
  return res
