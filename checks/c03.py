"""C03 — statements are recovered exactly, whatever the layout of the config text.

E3: every statement list up to length N over a menu (bindings in three scopes on differently qualified
selectors, macro definitions in all spellings, the import forms with/without alias, include) x every rendering
from a layout menu (single deviations at every position, pairs of deviations, block form for runs of bindings).
Oracle (a): the ConfigParser statement stream (dummy delegate) equals the model list; (b) gin.config_str()
after parse_config is identical for all layouts of one list; (c) malformed scoped names are rejected with
SyntaxError at every position (binding key, block header, @reference, %macro).
"""
import io
import itertools
import tokenize

from vf import core
from vf import harness
from vf.harness import gin, cfg, config_parser

ID = 'C03'
LEVEL = 'exploration'
RULE = ('statement lists len<=N over the menu x layouts (base; every single layout deviation at every statement; '
        'pairs of deviations at two statements; block renderings of every run of same-target bindings); each layout '
        'is parsed twice (raw statement stream vs model, parse_config -> config_str vs canonical layout). Malformed '
        'names x position must raise SyntaxError. distinct = distinct rendered text; non-trivial = not the base layout.')
ASSUMPTIONS = ['statement and layout menus as in coverage', 'in-memory file for the include statement']
WITNESSES = ['lenient_layouts_agree', 'block_form', 'comment_after_block_header', 'blank_inside_block', 'continuation', 'no_trailing_newline',
             'indented_flat', 'block_then_flat', 'block_then_block', 'import_forms', 'macro_spellings',
             'malformed_rejected', 'tab_indent', 'layouts_same_config', 'crlf_line_endings']

MEM = {'c03inc.gin': "c03.f.z = 'inc'\n"}


def setup():
  @gin.configurable(module='c03')
  def f(x=None, y=None, z=None):
    return x

  @gin.configurable('g', module='pkg.mod')
  def g(x=None):
    return x

  @gin.configurable(module='c03')
  def h():
    return 1
  gin.config.register_file_reader(lambda p: io.StringIO(MEM[p]), lambda p: p in MEM)
  import atexit, os, shutil, sys, tempfile  # pylint: disable=import-outside-toplevel,multiple-imports
  d = tempfile.mkdtemp(prefix='c03_')
  with open(os.path.join(d, 'c03late.py'), 'w') as fh:      # registers its configurable when it is imported
    fh.write('import gin\n\n@gin.configurable\ndef late_widget(a=None, b=None):\n  return (a, b)\n')
  sys.path.insert(0, d)
  atexit.register(lambda: shutil.rmtree(d, ignore_errors=True))

  # names that coincide with the contextual keywords of the statement grammar
  for kw in ('include', 'import'):
    def kwfn(x=None, y=None):
      return x
    kwfn.__name__ = kw
    gin.external_configurable(kwfn, name=kw, module='c03kw')


class Delegate(config_parser.ParserDelegate):
  def configurable_reference(self, scoped_configurable_name, evaluate):
    return ('ref', scoped_configurable_name, evaluate)

  def macro(self, macro_name):
    return ('macro', macro_name)


# statement = (kind, fields...)
STMTS = {
    'B1': ('bind', '', 'c03.f', 'x', '1'),
    'B2': ('bind', 'a', 'c03.f', 'x', "'s'"),
    'B3': ('bind', 'a/b', 'f', 'y', '[1, 2]'),
    'B4': ('bind', '', 'pkg.mod.g', 'x', "{'k': (1,)}"),
    'B5': ('bind', '', 'c03.f', 'y', '@c03.h()'),
    'B6': ('bind', 'a', 'c03.f', 'y', '%mac'),
    'B7': ('bind', 'a', 'c03.f', 'z', "@a/b/c03.h"),
    'M1': ('macro', 'mac', '5', 'plain'),
    'M2': ('macro', 'mac', '6', 'macro.value'),
    'M3': ('macro', 'a/b', '7', 'plain'),
    'M4': ('macro', 'a/b', "'eight'", 'gin.macro.value'),
    'M5': ('macro', 'include', "'inc'", 'plain'),
    'M6': ('macro', 'from', '2', 'plain'),
    'M7': ('macro', 'import', '[1, 2]', 'plain'),
    'B8': ('bind', '', 'include', 'x', '9'),
    'B9': ('bind', '', 'include', 'y', "'nine'"),
    'B10': ('bind', 'a', 'import', 'x', '10'),
    'I1': ('import', 'json', False, None),
    'I2': ('import', 'os.path', False, None),
    'I3': ('import', 'os.path', False, 'osp'),
    'I4': ('import', 'os.path', True, None),
    'I5': ('import', 'os.path', True, 'p2'),
    'I6': ('import', 'os.path', False, 'os'),          # alias equal to the first component: not redundant
    'I7': ('import', 'os.path', True, 'path'),         # alias equal to the imported name (redundant but legal)
    'I8': ('import', 'json', False, 'json'),
    'N1': ('include', 'c03inc.gin'),
    'B11': ('bind', '', 'c03.f', 'z', "'own'"),     # the parameter the included file sets as well
}
Q_KEYS = ['B1', 'B2', 'B3', 'B5', 'B6', 'M1', 'M2', 'M3', 'I3', 'I4', 'N1']


def bound(tier):
  return ('lists len<=%d over %d statements; %d flat layout deviations, %d block layouts' %
          (((2, len(STMTS)) if tier == 'quick' else (3, len(STMTS))) + (len(DEVS), len(BLOCKS))))


def model_stmt(st):
  k = st[0]
  if k == 'bind':
    _, scope, sel, arg, vt = st
    if vt.startswith('@'):
      name = vt[1:]
      ev = name.endswith('()')
      val = ('ref', name[:-2] if ev else name, ev)
    elif vt.startswith('%'):
      val = ('macro', vt[1:])
    else:
      val = eval(vt, {'__builtins__': {}}, {})  # pylint: disable=eval-used
    return ('B', scope, sel, arg, val)
  if k == 'macro':
    _, name, vt, sp = st
    val = eval(vt, {'__builtins__': {}}, {})  # pylint: disable=eval-used
    if sp == 'plain':
      scope, _, sel = name.rpartition('/')
      return ('B', scope, sel, '', val)
    return ('B', name, sp[:-len('.value')], 'value', val)
  if k == 'import':
    return ('I', st[1], st[2], st[3])
  return ('N', st[1])


def key_text(st):
  k = st[0]
  if k == 'bind':
    return (st[1] + '/' if st[1] else '') + st[2] + '.' + st[3]
  if k == 'macro':
    return st[1] if st[3] == 'plain' else st[1] + '/' + st[3]
  return None


def value_text(st):
  return st[4] if st[0] == 'bind' else st[2]


# flat layout deviations: name -> function(stmt) -> text lines of that statement (may include leading material)
def flat(st, eq=' = ', pre='', post='', cont=None, indent=''):
  k = st[0]
  if k in ('bind', 'macro'):
    kt, vt = key_text(st), value_text(st)
    if cont == 'after_eq':
      body = indent + kt + ' = \\\n    ' + vt
    elif cont == 'before_eq':
      body = indent + kt + ' \\\n  = ' + vt
    elif cont == 'in_container' and vt[0] in '[{':
      body = indent + kt + eq + vt[0] + '\n      ' + vt[1:]
    else:
      body = indent + kt + eq + vt
  elif k == 'import':
    _, mod, is_from, alias = st
    sp = '  ' if eq == '   =   ' else ' '
    if is_from:
      a, b = mod.rsplit('.', 1)
      body = indent + 'from' + sp + a + sp + 'import' + sp + b
    else:
      body = indent + 'import' + sp + mod
    if alias:
      body += sp + 'as' + sp + alias
    if cont == 'after_eq':
      body = body.replace(' import ', ' \\\n    import ', 1) if is_from else body.replace('import ', 'import \\\n   ', 1)
  else:
    sp = '  ' if eq == '   =   ' else ' '
    body = indent + 'include' + sp + ("'%s'" if cont != 'after_eq' else '"%s"') % st[1]
  return pre + body + post


DEVS = {
    'base': {},
    'eq_tight': dict(eq='='),
    'eq_wide': dict(eq='   =   '),
    'eq_tab': dict(eq='\t=\t'),
    'blank_before': dict(pre='\n\n'),
    'comment_before': dict(pre='# a comment line\n'),
    'comment_indented_before': dict(pre='    # indented comment\n'),
    'trailing_comment': dict(post='  # trailing'),
    'trailing_spaces': dict(post='   '),
    'cont_after_eq': dict(cont='after_eq'),
    'cont_before_eq': dict(cont='before_eq'),
    'break_in_container': dict(cont='in_container'),
    'blank_after': dict(post='\n\n'),
    'comment_after': dict(post='\n# after'),
    'formfeedless_ws_line': dict(pre='   \n'),
    # characters that str.splitlines treats as line ends but the config language does not: a comment runs to '\n'
    'trailing_comment_odd_separators': dict(post='  # a\x0cq9.z = 99 \x85 b \u2028 c \x1d d'),
    'comment_before_odd_separators': dict(pre='# page\x0b q9.z = 9 \x1c x \u2029 y \x1e\n'),
}
BLOCKS = {
    'i2': dict(ind='  '),
    'i1': dict(ind=' '),
    'i4': dict(ind='    '),
    'tab': dict(ind='\t'),
    'hdr_comment': dict(ind='  ', hdr='  # header comment'),
    'blank_after_hdr': dict(ind='  ', after_hdr='\n'),
    'comment_after_hdr': dict(ind='  ', after_hdr='  # own line\n'),
    'comment_then_blank_after_hdr': dict(ind='  ', after_hdr='  # own line\n\n'),
    'blank_then_comment_after_hdr': dict(ind='  ', after_hdr='\n# own line, column 0\n'),
    'comments_around_blank_after_hdr': dict(ind='  ', hdr='  # header comment', after_hdr='# c1\n\n   \n    # c2\n'),
    'blank_inside': dict(ind='  ', between='\n'),
    'comment_then_blank_inside': dict(ind='  ', between='  # inside\n\n'),
    'comment_inside': dict(ind='  ', between='    # inside\n'),
    'comment_inside_col0': dict(ind='  ', between='# col0 comment\n'),
    'member_trailing_comment': dict(ind='  ', mpost='  # m'),
    'member_eq_tight': dict(ind='  ', eq='='),
    'hdr_space_before_colon': dict(ind='  ', colon=' :'),
    'member_cont': dict(ind='  ', eq=' = \\\n      '),
}


def block_text(run, L):
  scope, sel = run[0][1], run[0][2]
  hdr = (scope + '/' if scope else '') + sel + L.get('colon', ':') + L.get('hdr', '') + '\n' + L.get('after_hdr', '')
  members = [L['ind'] + st[3] + L.get('eq', ' = ') + st[4] + L.get('mpost', '') for st in run]
  return hdr + ('\n' + L.get('between', '')).join(members)


def runs(stmts):
  """Maximal runs (start, end) of consecutive bind statements with the same scope/selector."""
  out = []
  i = 0
  while i < len(stmts):
    if stmts[i][0] == 'bind':
      j = i
      while j + 1 < len(stmts) and stmts[j + 1][0] == 'bind' and stmts[j + 1][1:3] == stmts[i][1:3]:
        j += 1
      out.append((i, j + 1))
      i = j + 1
    else:
      i += 1
  return out


def layouts(stmts, tier):
  """Yields (layout description, text, tags)."""
  n = len(stmts)
  names = list(DEVS)

  def join(parts, trailing_nl=True):
    return '\n'.join(parts) + ('\n' if trailing_nl else '')
  yield ('base', join([flat(s) for s in stmts]), [])
  yield ('no_trailing_newline', join([flat(s) for s in stmts], False), ['no_trailing_newline'])
  yield ('all_indented', join([flat(s, indent='  ') for s in stmts]), ['indented_flat'])
  yield ('crlf', join([flat(s) for s in stmts]).replace('\n', '\r\n'), ['crlf_line_endings'])
  yield ('crlf_cont', join([flat(s, cont='after_eq') for s in stmts]).replace('\n', '\r\n'), ['crlf_line_endings'])
  if n > 1:
    yield ('first_indented', join([flat(s, indent='   ' if i == 0 else '') for i, s in enumerate(stmts)]),
           ['indented_flat'])
  for i in range(n):
    for d in names[1:]:
      parts = [flat(s, **(DEVS[d] if j == i else {})) for j, s in enumerate(stmts)]
      tags = ['continuation'] if d.startswith('cont') else []
      yield ('%s@%d' % (d, i), join(parts), tags)
      if d in ('trailing_comment', 'cont_after_eq') and i == n - 1:
        yield ('%s@%d,nonl' % (d, i), join(parts, False), tags + ['no_trailing_newline'])
  if n >= 2:
    ds = names[1:] if tier == 'thorough' or n == 2 else names[1:8]
    for i, j in itertools.combinations(range(n), 2):
      for d1, d2 in itertools.product(ds, ds):
        parts = [flat(s, **(DEVS[d1] if k == i else DEVS[d2] if k == j else {})) for k, s in enumerate(stmts)]
        yield ('%s@%d+%s@%d' % (d1, i, d2, j), join(parts), [])
  # block renderings
  rs = runs(stmts)
  for (a, b) in rs:
    for bn, L in BLOCKS.items():
      for sub_end in range(a + 1, b + 1):   # the run [a, sub_end) as a block, rest flat
        parts = [flat(s) for s in stmts[:a]] + [block_text(stmts[a:sub_end], L)] + [flat(s) for s in stmts[sub_end:]]
        tags = ['block_form']
        if 'hdr' in L:
          tags.append('comment_after_block_header')
        if L.get('between') == '\n' or L.get('after_hdr') == '\n':
          tags.append('blank_inside_block')
        if L['ind'] == '\t':
          tags.append('tab_indent')
        if sub_end < len(stmts):
          tags.append('block_then_flat')
        yield ('block[%d:%d]:%s' % (a, sub_end, bn), join(parts), tags)
        if bn in ('i2', 'tab', 'blank_inside'):
          yield ('block[%d:%d]:%s,crlf' % (a, sub_end, bn), join(parts).replace('\n', '\r\n'), tags + ['crlf_line_endings'])
        if sub_end == len(stmts):
          yield ('block[%d:%d]:%s,nonl' % (a, sub_end, bn), join(parts, False), tags + ['no_trailing_newline'])
  if len(rs) >= 2:
    for bn1, bn2 in itertools.product(list(BLOCKS)[:6], list(BLOCKS)[:6]):
      parts, i = [], 0
      for (a, b) in rs:
        parts += [flat(s) for s in stmts[i:a]]
        parts.append(block_text(stmts[a:b], BLOCKS[bn1 if (a, b) == rs[0] else bn2]))
        i = b
      parts += [flat(s) for s in stmts[i:]]
      adjacent = any(rs[k][1] == rs[k + 1][0] for k in range(len(rs) - 1))
      yield ('blocks:%s,%s' % (bn1, bn2), join(parts), ['block_form'] + (['block_then_block'] if adjacent else []))


def stream(text):
  out = []
  for st in config_parser.ConfigParser(text, Delegate()):
    if isinstance(st, config_parser.BindingStatement):
      out.append(('B', st.scope, st.selector, st.arg_name, st.value))
    elif isinstance(st, config_parser.ImportStatement):
      out.append(('I', st.module, st.is_from, st.alias))
    elif isinstance(st, config_parser.IncludeStatement):
      out.append(('N', st.filename))
    elif isinstance(st, config_parser.BlockDeclaration):
      pass
    else:
      out.append(('?', repr(st)))
  return out


def check_list(keys, tier, res):
  stmts = [STMTS[k] for k in keys]
  model = [model_stmt(s) for s in stmts]
  canon_cfg = None

  def summary():
    cs = '\n'.join(l for l in gin.config_str().splitlines() if not l.startswith(('import ', 'from ')))
    return cs + '\n' + repr(sorted({(i.module, i.is_from, i.alias or '') for i in cfg._IMPORTS}))
  # reference: the statements applied one at a time, each from a text of its own
  harness.hard_reset()
  try:
    for st in stmts:
      gin.parse_config(next(iter(layouts([st], tier)))[1])
    one_by_one = summary()
  except Exception as e:  # pylint: disable=broad-except
    one_by_one = 'raised %r' % (e,)
  for lname, text, tags in layouts(stmts, tier):
    desc = [list(keys), lname]
    res.case(text, lname != 'base')
    try:
      got = stream(text)
      out = 'ok'
    except Exception as e:  # pylint: disable=broad-except
      got, out = e, type(e).__name__
    res.outcome('stream:' + out)
    if out != 'ok':
      res.violation('layout_rejected', 'statements %r layout %s rejected (%r):\n%s' % (keys, lname, got, text), desc)
      continue
    if got != model:
      res.violation('stream_differs', 'statements %r layout %s parsed as %r, model %r:\n%s' %
                    (keys, lname, got, model, text), desc)
      continue
    harness.hard_reset()
    try:
      gin.parse_config(text)
      # the configuration = bindings + set of recorded imports.  (Which of two differently aliased imports of one
      # module config_str prints is decided by set iteration order; that is not a layout effect, see DESIGN.md C03.)
      cs = '\n'.join(l for l in gin.config_str().splitlines() if not l.startswith(('import ', 'from ')))
      cs += '\n' + repr(sorted((i.module, i.is_from, i.alias or '') for i in cfg._IMPORTS))
    except Exception as e:  # pylint: disable=broad-except
      cs = 'raised %r' % (e,)
    if canon_cfg is None:
      canon_cfg = cs
      whole = cs if cs.startswith('raised') else summary()      # (imports compared as a set here)
      if whole != one_by_one and not one_by_one.startswith('raised'):
        res.violation('stream_differs', 'statements %r: the text as a whole gives config\n%s\n-- the same statements '
                      'applied one at a time give\n%s\n-- text:\n%s' % (keys, whole, one_by_one, text), desc)
        return
      if cs.startswith('raised'):
        res.violation('base_layout_fails', 'statements %r: parse_config of the base layout %s:\n%s' % (keys, cs, text),
                      desc)
        return
    elif cs != canon_cfg:
      res.violation('config_differs_between_layouts', 'statements %r layout %s gives config\n%s\n-- base layout gives\n'
                    '%s\n-- text:\n%s' % (keys, lname, cs, canon_cfg, text), desc)
      continue
    else:
      res.w('layouts_same_config')
    for t in tags:
      res.w(t)
  if any(s[0] == 'import' for s in stmts):
    res.w('import_forms')
  if any(s[0] == 'macro' for s in stmts):
    res.w('macro_spellings')


# ------------------------------------------------------------------------------ malformed names
GOOD = 'a/b/c03.f.x'
MALFORMED = {
    'space_before_slash': 'a /b/c03.f.x', 'space_after_slash': 'a/ b/c03.f.x', 'space_before_dot': 'a/b/c03 .f.x',
    'space_after_dot': 'a/b/c03. f.x', 'space_before_last_dot': 'a/b/c03.f .x', 'tab_inside': 'a/b/c03.f.\tx',
    'continuation_inside': 'a/\\\nb/c03.f.x', 'double_slash': 'a//b/c03.f.x', 'leading_slash': '/a/b/c03.f.x',
    'double_dot': 'a/b/c03..f.x', 'slash_dot': 'a/b/.c03.f.x', 'trailing_dot': 'a/b/c03.f.x.', 'trailing_slash':
    'a/b/c03.f.x/', 'dot_in_scope': 'a.q/b/c03.f.x', 'digit_start': 'a/1b/c03.f.x', 'dash_inside': 'a/b-c/c03.f.x',
    'dot_slash': 'a/b./c03.f.x', 'only_slash': '/', 'leading_dot': '.c03.f.x',
}
POSITIONS = {
    'binding_key': lambda name: '%s = 1' % name,
    'block_header': lambda name: '%s:\n  x = 1' % name.rsplit('.', 1)[0] if '.' in name else '%s:\n  x = 1' % name,
    'reference': lambda name: 'c03.f.y = @%s()' % name.replace('c03.f.x', 'c03.h').replace('.x', ''),
    'reference_in_list': lambda name: 'c03.f.y = [1, @%s]' % name.replace('c03.f.x', 'c03.h').replace('.x', ''),
    'macro': lambda name: 'c03.f.y = %%%s' % name.replace('/c03.f.x', '').replace('c03.f.x', 'mac'),
}


def _continuation_splits():
  """GOOD split after every token boundary by backslash-newline, the rest indented by k blanks for k around the
  column where the first part ended (a check that compares columns but not lines would accept k == that column)."""
  out = {}
  bounds = [i for i, ch in enumerate(GOOD) if ch in '/.'] + [i + 1 for i, ch in enumerate(GOOD) if ch in '/.']
  for i in sorted(set(bounds)):
    left, right = GOOD[:i], GOOD[i:]
    for dk in (-1, 0, 1):
      k = len(left) + dk
      if k >= 0:
        out['cont_split@%d%+d' % (i, dk)] = left + '\\\n' + ' ' * k + right
  return out


def malformed_cases():
  MALFORMED.update(_continuation_splits())
  for mname, bad in MALFORMED.items():
    for pname, fn in POSITIONS.items():
      yield ['malformed', mname, pname]
      yield ['malformed', mname, pname, 'after_wellformed']
  for extra in ['@a/c03.h ()x', '%a /b', '@a /c03.h()', '@a/c03 .h', '@a/c03. h', '%a/ b', '@a/ c03.h', '@a//c03.h', '@/c03.h', '%a//b', '%/a',
                '@a/c03..h', '@c03.h.()', '%mac.', '@']:
    yield ['malformed_value', extra, 'value']
    yield ['malformed_value', extra, 'value', 'after_wellformed']


def check_malformed(case, res):
  kind, mname, pname = case[:3]
  if kind == 'malformed':
    if mname not in MALFORMED:
      MALFORMED.update(_continuation_splits())
    bad = MALFORMED[mname]
    text = POSITIONS[pname](bad)
    good_text = POSITIONS[pname](GOOD)
    # a rendering in which the malformation disappears (e.g. dot_in_scope is legal inside @references) is skipped
    if pname in ('reference', 'reference_in_list', 'macro') and mname == 'dot_in_scope':
      return
    if text == good_text:
      return
    if pname in ('reference', 'reference_in_list', 'macro'):
      inner = text.split('@' if 'reference' in pname else '%', 1)[1].rstrip(')]( ')
      if inner in ('a/b/c03.f', 'a/b/c03.h', 'a/b', 'mac') or inner.strip() != inner:
        return  # the malformation fell outside the name
    if pname == 'block_header':
      hdr = bad[:-2] if bad.endswith('.x') else bad.rsplit('.', 1)[0]
      if hdr.strip() == GOOD[:-2] or hdr.rstrip().rstrip('\\').strip() == GOOD[:-2]:
        return  # the malformation fell outside the name (e.g. a blank / a continuation before the colon)
      text = hdr + ':\n  x = 1'
  else:
    text = 'c03.f.y = ' + mname
  # variants: the malformed statement alone, and preceded IN THE SAME TEXT by the well-formed spelling of the same name
  # (a parser that remembers names it has validated must still reject the malformed occurrence)
  variant = case[3] if len(case) > 3 else 'alone'
  if variant == 'after_wellformed':
    if kind == 'malformed':
      text = good_text.replace('= 1', '= 0').replace('x = 0', 'x = 0') + '\n' + text
    else:
      good = {'@': 'c03.f.y = @a/c03.h()', '%': 'c03.f.y = %a/b'}.get(mname.lstrip()[:1], 'c03.f.y = @a/c03.h()')
      text = good + '\n' + 'c03.f.y = @a/c03.h\nc03.f.y = %mac\n' + text
  res.case(text, True)
  harness.hard_reset()
  gin.parse_config('mac = 1\na/b = 2')
  if variant == 'after_wellformed':
    try:
      gin.parse_config(text.rsplit('\n', 1)[0] if kind != 'malformed' else good_text.replace('= 1', '= 0'))
    except Exception:  # pylint: disable=broad-except
      pass
  before = gin.config_str()
  try:
    gin.parse_config(text)
    out = 'accepted'
  except (SyntaxError, tokenize.TokenError):
    out = 'SyntaxError'
  except Exception as e:  # pylint: disable=broad-except
    out = type(e).__name__
  res.outcome('malformed:' + out)
  if out == 'accepted':
    res.violation('malformed_accepted', 'malformed name accepted (silently repaired): %r -> config %r' %
                  (text, gin.config_str()), case)
  else:
    # The statement asks for rejection, not for a particular class (`a//b` tokenizes as floor division, so the
    # reference ends at `a` and is reported as unknown configurable): any exception counts, the class is recorded.
    res.w('malformed_rejected')
    if gin.config_str() != before:
      res.violation('malformed_changed_config', 'rejected malformed %r changed the config' % (text,), case)


def gen_lists(tier):
  keys = list(STMTS)
  n = 2 if tier == 'quick' else 3
  for k in range(1, n + 1):
    for t in itertools.product(keys, repeat=k):
      # two includes of the same file or duplicate imports add nothing
      yield list(t)
  if tier == 'quick':
    # a few length-3 lists with two runs / run followed by other statements
    for t in [('B1', 'B5', 'B2'), ('B2', 'B6', 'B7'), ('B1', 'B5', 'M1'), ('M1', 'B2', 'B6'), ('I4', 'B1', 'B5'),
              ('B1', 'B5', 'N1'), ('B2', 'B6', 'B1'), ('B1', 'B2', 'B6'), ('N1', 'B11', 'N1'), ('B11', 'N1', 'B11'),
              ('N1', 'N1', 'B11'), ('M1', 'N1', 'M2')]:
      yield list(t)
  else:
    for t in [('B1', 'B5', 'B2', 'B6'), ('B2', 'B6', 'B7', 'B1'), ('M1', 'B1', 'B5', 'N1'), ('I5', 'B2', 'B6', 'B7')]:
      yield list(t)


# --------------------------------------------------------------------- lenient parsing: flat and block layouts agree
# (the same statements, some of which name a configurable that only a later `import` registers)
LENIENT = {
    'first_flat_later_flat': "late_widget.a = 1\nimport c03late\nlate_widget.b = 2\n",
    'first_block_later_flat': "late_widget:\n  a = 1\nimport c03late\nlate_widget.b = 2\n",
    'first_flat_later_block': "late_widget.a = 1\nimport c03late\nlate_widget:\n  b = 2\n",
    'first_block_later_block': "late_widget:\n  a = 1\n\nimport c03late\nlate_widget:\n  b = 2\n",
    'scoped_block_then_flat': "s/late_widget:\n  a = 1\nimport c03late\ns/late_widget.b = 2\nlate_widget.b = 3\n",
}


def check_lenient(name, res):
  import sys  # pylint: disable=import-outside-toplevel
  desc = ['lenient', name]
  outs = {}
  for skip in (True, ['late_widget'], ('late_widget',)):
    harness.hard_reset()
    sys.modules.pop('c03late', None)
    res.case(('lenient', name, repr(skip)), True)
    try:
      gin.parse_config(LENIENT[name], skip_unknown=skip)
      outs[repr(skip)] = {k: dict(v) for k, v in cfg._CONFIG.items()}
    except Exception as e:  # pylint: disable=broad-except
      outs[repr(skip)] = 'raised %r' % (e,)
  want = {('', 'c03late.late_widget'): {'b': 2}}
  if name.startswith('scoped'):
    want = {('s', 'c03late.late_widget'): {'b': 2}, ('', 'c03late.late_widget'): {'b': 3}}
  bad = {k: v for k, v in outs.items() if v != want}
  if bad:
    res.violation('stream_differs', '%r: lenient parse of\n%s\ngave %r, every layout of these statements gives %r' %
                  (desc, LENIENT[name], bad, want), desc)
  else:
    res.w('lenient_layouts_agree')


# --------------------------------------------------------------------- readers do not share anything
def _tag(st):
  if isinstance(st, config_parser.BindingStatement):
    return ('B', st.scope, st.selector, st.arg_name, st.value)
  if isinstance(st, config_parser.BlockDeclaration):
    return ('D', st.scope, st.selector)
  return ('?', type(st).__name__)


TWO_TEXTS = {
    'blocks': ("a/c03.f:\n  x = 1\n  y = 2\nc03.h.q = 0\n", "b/c03.f:\n  x = 10\n\n  y = 20\n  z = 30\n"),
    'block_and_flat': ("a/c03.f:\n  x = 1\n  y = 2\n", "c03.f.x = 5\nc03.f.y = 6\nc03.f.z = 7\n"),
    'multiline_value': ("c03.f.x = '''usage:\n# lines starting with a hash are text\n  # indented too\ndone\n'''\nc03.f.y = 2\n",
                        "c03.f:\n  x = \"\"\"a\n#b\n\"\"\"\n  y = [1,\n  # a real comment\n  2]\n"),
}


def check_two_readers(name, res):
  """Two texts read in lock step (and a reader created while another is in the middle of a block) hand out exactly the
  statements each hands out alone; a multi-line string keeps its '#' lines."""
  desc = ['two_readers', name]
  a, b = TWO_TEXTS[name]
  res.case(tuple(desc), True)
  alone = [[_tag(st) for st in config_parser.ConfigParser(t, Delegate())] for t in (a, b)]
  pa, pb = iter(config_parser.ConfigParser(a, Delegate())), iter(config_parser.ConfigParser(b, Delegate()))
  got = [[], []]
  done = [False, False]
  while not all(done):
    for i, p in enumerate((pa, pb)):
      if not done[i]:
        try:
          got[i].append(_tag(next(p)))
          config_parser.ConfigParser('c03.h.q = 1\n', Delegate())      # a third reader is merely created
        except StopIteration:
          done[i] = True
        except Exception as e:  # pylint: disable=broad-except
          got[i].append(('raised', repr(e)))
          done[i] = True
  if got != alone:
    res.violation('stream_differs', '%r: read in lock step the two texts give %r, each alone gives %r' % (desc, got, alone), desc)
    return
  if name == 'multiline_value':
    want = 'usage:\n# lines starting with a hash are text\n  # indented too\ndone\n'
    if alone[0][0][4] != want or alone[1][1][4] != 'a\n#b\n':
      res.violation('value_changed_by_layout', '%r: multi-line string values read as %r and %r' %
                    (desc, alone[0][0][4], alone[1][1][4]), desc)
      return
  res.w('readers_independent')


# --------------------------------------------------------------------- dynamic registration: block form == flat form
DYNHEAD = 'from __gin__ import dynamic_registration\n'
DYN_LAYOUT = {
    # (texts parsed before, imports of the text under test, name used in it)
    'first_use': ([], 'import c03late as w\n', 'w.late_widget'),
    'registered_by_its_library': (['import c03late\n'], 'import c03late as w\n', 'w.late_widget'),
    'second_alias': ([DYNHEAD + 'import c03late as first\nfirst.late_widget.a = 0\n'], 'import c03late as second\n', 'second.late_widget'),
}


def check_dyn_layout(name, res):
  before, imports, sel = DYN_LAYOUT[name]
  desc = ['dyn_layout', name]
  outs = {}
  forms = {'flat': '%s.a = 1\n%s.b = 2\n' % (sel, sel), 'block': '%s:\n  a = 1\n  b = 2\n' % sel,
           'scoped_flat': 's/%s.a = 1\ns/%s.b = 2\n' % (sel, sel), 'scoped_block': 's/%s:\n  a = 1\n\n  b = 2\n' % sel}
  for form, body in forms.items():
    harness.hard_reset()
    res.case(('dyn_layout', name, form), True)
    try:
      for t in before:
        gin.parse_config(t)
      gin.clear_config()
      gin.parse_config(DYNHEAD + imports + body)
      outs[form] = sorted((k[0], sorted(v.items())) for k, v in cfg._CONFIG.items())
    except Exception as e:  # pylint: disable=broad-except
      outs[form] = 'raised %r' % (e,)
  want = {f: [('s' if f.startswith('scoped') else '', [('a', 1), ('b', 2)])] for f in forms}
  bad = {f: v for f, v in outs.items() if v != want[f]}
  if bad:
    res.violation('stream_differs', '%r: with dynamic registration (history %r) the layouts %r of the same two bindings of %s '
                  'give %r' % (desc, before, sorted(bad), sel, bad), desc)
  else:
    res.w('dynamic_block_equals_flat')


NSH = 96


def shards(tier):
  return list(range(NSH))


def run_shard(i, tier):
  res = core.Result()
  MEM  # pylint: disable=pointless-statement
  for n, keys in enumerate(gen_lists(tier)):
    if n % NSH != i:
      continue
    check_list(keys, tier, res)
    if n % 37 == i % 37:
      res.sample({'statements': keys, 'layout_example': list(layouts([STMTS[k] for k in keys], tier))[-1][1]})
  for n, case in enumerate(malformed_cases()):
    if n % NSH == i:
      check_malformed(case, res)
  for n, name in enumerate(LENIENT):
    if n % NSH == i:
      check_lenient(name, res)
  for n, name in enumerate(DYN_LAYOUT):
    if (n + 7) % NSH == i:
      check_dyn_layout(name, res)
  for n, name in enumerate(TWO_TEXTS):
    if (n + 13) % NSH == i:
      check_two_readers(name, res)
  harness.hard_reset()
  return res


def replay(desc):
  res = core.Result()
  if desc[0] in ('malformed', 'malformed_value'):
    check_malformed(desc, res)
  elif desc[0] == 'lenient':
    check_lenient(desc[1], res)
  elif desc[0] == 'dyn_layout':
    check_dyn_layout(desc[1], res)
  elif desc[0] == 'two_readers':
    check_two_readers(desc[1], res)
  else:
    check_list(desc[0], 'thorough', res)
  harness.hard_reset()
  return res
