"""C07 — the operative config records exactly what Gin supplied and suffices to replay.

E1: for each of a few fixed configurations, BFS over sequences of call events (plain / positional / keyword /
scoped calls, consumers of evaluated scoped references, macros, a constant, a registered method reached through
scoped and unscoped instances, allow/deny-listed configurables, non-representable defaults and bindings).
After every transition: (1) the operative text, parsed on a reset gin, must contain exactly the sections and
parameters predicted by OperativeModel; (2) reset -> parse the text -> repeat the same calls must give identical
probe records and identical text (when every supplied value was representable).
"""
import enum
import re

from vf import bfs
from vf import core
from vf import harness
from vf.harness import gin, cfg

ID = 'C07'
LEVEL = 'model_checking'
RULE = ('per configuration: BFS over call-event sequences to the depth bound, dedup on the canonical real internal '
        'state (operative record); after each transition the operative text is compared with OperativeModel (sections '
        'and parameter values after re-parsing it on a reset gin) and replayed. non-trivial = sequence length >= 2.')
ASSUMPTIONS = ['OperativeModel restates the rule: defaults (representable, allowed) + applicable bindings - caller '
               'supplied names, most recent value wins', 'probe bodies record arguments only']
WITNESSES = ['read_overlapping_call', 'same_named_modules_replayed', 'operative_after_failed_macro_call', 'param_from_earlier_call_kept', 'caller_supplied_omitted', 'scoped_section', 'macro_as_definition',
             'constant_omitted', 'denylisted_default_omitted', 'nonrepresentable_omitted', 'method_section',
             'replay_same_records', 'replay_same_text', 'uncalled_absent', 'evaluated_ref_section', 'rebound_between_calls']

REC = []
CONST = object()


class NonRep:
  def __repr__(self):
    return '<NonRep>'


NONREP = NonRep()


class IE(enum.IntEnum):
  ONE = 1
  TWO = 2


class SE(str, enum.Enum):
  S = 's'


def setup():
  @gin.configurable(module='c07')
  def f(a, b='fb', c=3.5, nr=NONREP):
    REC.append(('f', a, b, c, 'NR' if nr is NONREP else ('CONST' if nr is CONST else nr)))

  @gin.configurable(module='c07')
  def g(t='gt'):
    REC.append(('g', t, gin.current_scope_str()))
    return 'gval:%s' % (t,)

  @gin.configurable(module='c07')
  def consumer(p='cp', q=None):
    REC.append(('consumer', p, q))

  @gin.configurable(module='c07', allowlist=['x'])
  def al(x=1, y=2):
    REC.append(('al', x, y))

  @gin.configurable(module='c07', denylist=['y'])
  def dl(x=1, y=2):
    REC.append(('dl', x, y))

  @gin.configurable(module='c07')
  def z0(a=0, b='', c=False, d=None, e=(), f_=0.0):
    REC.append(('z0', a, b, c, d, e, f_))

  @gin.configurable(module='c07')
  def zf(a=float('inf'), b=float('nan'), c=-float('inf'), d=1.5, e=(float('inf'),), g_=1e308):
    REC.append(('zf', repr((a, b, c, d, e, g_))))

  @gin.configurable(module='c07')
  def kwd(a='ka', b='kb', *, k='kk', j=None):      # positional defaults AND keyword-only defaults
    REC.append(('kwd', a, b, k, j))

  @gin.configurable(module='c07')
  def th(a=1, b=2):
    return (a, b)
  global TH
  TH = th

  @gin.configurable(module='c07')
  def mut(items=None, table=None):          # a callee that edits the containers it is given
    REC.append(('mut', repr(items), repr(table)))
    if items is not None:
      items.append('EDITED')
    if table is not None:
      table['edited'] = True

  @gin.configurable(module='c07')
  def en(mode=IE.ONE, kind=SE.S, steps=0, label='x'):     # enum defaults that EQUAL the plain values bound below
    REC.append(('en', repr(mode), repr(kind), steps, label))
  global MUT, EN
  MUT, EN = mut, en

  @gin.configurable(module='c07')
  def never(z=0):
    REC.append(('never', z))

  class K:
    def __init__(self, w='kw'):
      REC.append(('K', w))

    def m(self, v='mv', u=None):
      REC.append(('K.m', v, u))
  K.__module__ = 'c07'
  K.m.__module__ = 'c07'
  K.m.__qualname__ = 'K.m'
  gin.register(K.m)
  gin.register(K)
  # three packages whose module has the same name: the operative text must give each its own alias
  import atexit, os, shutil, sys, tempfile  # pylint: disable=import-outside-toplevel,multiple-imports
  d = tempfile.mkdtemp(prefix='c07_')
  for pk in ('c07pa', 'c07pb', 'c07pc', 'c07pd'):
    os.makedirs(os.path.join(d, pk))
    open(os.path.join(d, pk, '__init__.py'), 'w').close()
    with open(os.path.join(d, pk, 'nets.py'), 'w') as fh:
      fh.write("def build(width=1, depth=2):\n  return (%r, width, depth)\n" % pk)
  sys.path.insert(0, d)
  atexit.register(lambda: shutil.rmtree(d, ignore_errors=True))
  # ONE function registered three times with different lists (what a shared __init__, or a helper exported under
  # several names, amounts to)
  def shared(x=1, y=2, z=3):
    REC.append(('shared', x, y, z))
  SH['sh_all'] = gin.external_configurable(shared, name='sh_all', module='c07')
  SH['sh_allow'] = gin.external_configurable(shared, name='sh_allow', module='c07', allowlist=['x'])
  SH['sh_deny'] = gin.external_configurable(shared, name='sh_deny', module='c07', denylist=['y'])
  global F, G, CONSUMER, AL, DL, KCLS, Z0, ZF, KWD
  F, G, CONSUMER, AL, DL, KCLS, Z0, ZF, KWD = f, g, consumer, al, dl, K, z0, zf, kwd


class OddRepr:
  def __init__(self, text):
    self.text = text

  def __repr__(self):
    return self.text


ODD_REPRS = ['@c07_no_such_thing()', '@c07nothere', '(1, 2', '"""abc', '@c07.g(', "[1, '", '{[1]: 2}']


def run_odd_repr(text, res):
  """A supplied value with no literal form is left out of the operative text, whatever its repr looks like."""
  art = {'special': 'odd_repr', 'repr': text}
  harness.hard_reset()
  del REC[:]
  res.case(('odd_repr', text), True)
  if text != 'HUGE':          # (the probe g formats its argument itself)
    gin.bind_parameter('c07.g.t', OddRepr(text))
  gin.bind_parameter('c07.consumer.q', [1, OddRepr(text)] if text != 'HUGE' else [10 ** 5000])
  gin.bind_parameter('c07.consumer.p', 'plain')
  try:
    gin.get_configurable('c07.g')()
    gin.get_configurable('c07.consumer')()
    op_text = gin.operative_config_str()
  except Exception as e:  # pylint: disable=broad-except
    res.violation('operative_raises_for_unrepresentable_value', 'a supplied value whose repr is %r: %r' % (text, e), art)
    return
  lines = [l for l in op_text.splitlines() if l and not l.startswith('#')]
  want = ["consumer.p = 'plain'"] + (["g.t = 'gt'"] if text == 'HUGE' else [])      # (g's own default when nothing is bound)
  if [l.replace('c07.', '') for l in lines] != want:
    res.violation('listed_parameters', 'supplied values whose repr is %r: operative text lists %r' % (text, lines), art)
    return
  harness.hard_reset()
  try:
    gin.parse_config(op_text)
  except Exception as e:  # pylint: disable=broad-except
    res.violation('operative_unparseable', 'odd repr %r: %r\n%s' % (text, e, op_text), art)
    return
  res.w('unrepresentable_value_omitted')


def run_singleton_replay(clear_constants, res):
  """A singleton whose constructor is a configurable: the replay (clear, parse the operative text, same calls) runs the
  constructor again, so its section is there again."""
  art = {'special': 'singleton_replay', 'clear_constants': clear_constants}
  harness.hard_reset()
  del REC[:]
  res.case(('singleton_replay', clear_constants), True)
  gin.parse_config("c07.consumer.p = @shared/gin.singleton()\nshared/gin.singleton.constructor = @c07.g\nshared/c07.g.t = 'T'\n")
  for _ in range(2):
    gin.get_configurable('c07.consumer')()
  first, text = list(REC), gin.operative_config_str()
  gin.clear_config(clear_constants=clear_constants)
  del REC[:]
  try:
    gin.parse_config(text)
    for _ in range(2):
      gin.get_configurable('c07.consumer')()
  except Exception as e:  # pylint: disable=broad-except
    res.violation('operative_unparseable', 'singleton replay: %r\n%s' % (e, text), art)
    return
  if list(REC) != first or gin.operative_config_str() != text:
    res.violation('replay_differs', 'singleton with a configurable constructor: the first run recorded %r and\n%s\n--- the '
                  'replay recorded %r and\n%s' % (first, text, list(REC), gin.operative_config_str()), art)
  else:
    res.w('singleton_constructor_replayed')


SH = {}
SH_WANT = {'sh_all': {'x': '1', 'y': '2', 'z': '3'}, 'sh_allow': {'x': '1'}, 'sh_deny': {'x': '1', 'z': '3'}}


def run_shared_function(order, res):
  """Each registration of the one function lists the defaults ITS lists allow, whichever was called first."""
  art = {'special': 'shared_function', 'order': list(order)}
  harness.hard_reset()
  del REC[:]
  res.case(('shared_function', tuple(order)), True)
  for name in order:
    SH[name]()
  first = list(REC)
  text = gin.operative_config_str()
  got = {}
  for l in text.splitlines():
    m = re.match(r'^c07\.(sh_\w+)\.(\w+) = (.*)$', l) or re.match(r'^(sh_\w+)\.(\w+) = (.*)$', l)
    if m:
      got.setdefault(m.group(1), {})[m.group(2)] = m.group(3)
  want = {n: SH_WANT[n] for n in order}
  if got != want:
    res.violation('listed_parameters', 'one function registered as %r and called in that order: operative sections %r, '
                  'expected %r\n%s' % (list(order), got, want, text), art)
    return
  harness.hard_reset()
  del REC[:]
  try:
    gin.parse_config(text)
    for name in order:
      SH[name]()
  except Exception as e:  # pylint: disable=broad-except
    res.violation('operative_unparseable', 'shared function %r: replay raised %r\n%s' % (list(order), e, text), art)
    return
  if list(REC) != first or gin.operative_config_str() != text:
    res.violation('replay_differs', 'shared function %r: replay gave %r, first run %r' % (list(order), list(REC), first), art)
  else:
    res.w('one_function_several_registrations')


# ------------------------------------------------------------------------------------- model data
SIG = {   # selector -> (positional names, representable+allowed defaults)
    'c07.f': (['a', 'b', 'c', 'nr'], {'b': 'fb', 'c': 3.5}),
    'c07.g': (['t'], {'t': 'gt'}),
    'c07.consumer': (['p', 'q'], {'p': 'cp', 'q': None}),
    'c07.al': (['x', 'y'], {'x': 1}),
    'c07.dl': (['x', 'y'], {'x': 1}),
    'c07.K': (['self', 'w'], {'w': 'kw'}),
    'c07.K.m': (['self', 'v', 'u'], {'v': 'mv', 'u': None}),
    'c07.z0': (['a', 'b', 'c', 'd', 'e', 'f_'], {'a': 0, 'b': '', 'c': False, 'd': None, 'e': (), 'f_': 0.0}),
    'c07.zf': (['a', 'b', 'c', 'd', 'e', 'g_'], {'d': 1.5, 'g_': 1e308}),
    'c07.kwd': (['a', 'b'], {'a': 'ka', 'b': 'kb', 'k': 'kk', 'j': None}),
    'c07.mut': (['items', 'table'], {'items': None, 'table': None}),
    'c07.en': (['mode', 'kind', 'steps', 'label'], {'steps': 0, 'label': 'x'}),
    'gin.macro': (['value'], {}),
    'gin.constant': ([], {}),
}


class Ref:
  def __init__(self, scope, selector, evaluate=True):
    self.scope, self.selector, self.evaluate = scope, selector, evaluate

  def canon(self):
    return ('ref', self.scope, self.selector, self.evaluate)


def MAC(name):
  return Ref(name, 'gin.macro')


def CON(name):
  return Ref(name, 'gin.constant')


CONFIGS = {
    'cfg_refs': {
        'text': ("c07.f.a = 'bound_a'\ns/c07.f.b = 'sb'\nc07.consumer.p = @s/c07.g()\nc07.g.t = %mm\nmm = 'macroval'\n"
                 "c07.al.x = 10\nc07.dl.x = 20\nc07.K.m.v = 'bound_v'\nc07.f.nr = %c07.CONST\nu/c07.K.w = 'uw'\n"
                 "s/t/c07.f.c = [1, {'k': (2,)}]\n"),
        'model': {
            ('', 'c07.f'): {'a': 'bound_a', 'nr': CON('c07.CONST')},
            ('s', 'c07.f'): {'b': 'sb'},
            ('s/t', 'c07.f'): {'c': [1, {'k': (2,)}]},
            ('', 'c07.consumer'): {'p': Ref('s', 'c07.g')},
            ('', 'c07.g'): {'t': MAC('mm')},
            ('mm', 'gin.macro'): {'value': 'macroval'},
            ('', 'c07.al'): {'x': 10},
            ('', 'c07.dl'): {'x': 20},
            ('', 'c07.K.m'): {'v': 'bound_v'},
            ('u', 'c07.K'): {'w': 'uw'},
        },
    },
    'cfg_empty': {'text': '', 'model': {}},
    'cfg_nonrep': {
        'text': ("c07.f.a = 1\nc07.consumer.q = [@c07.g(), @c07.g]\ns/c07.g.t = 'st'\nc07.mut.items = [64, 64]\n"
                 "c07.mut.table = {'k': [1]}\nc07.en.steps = 1\nc07.en.label = 's'\n"),
        'bind': [(('', 'c07.f', 'c'), NONREP)],
        'model': {
            ('', 'c07.f'): {'a': 1, 'c': NONREP},
            ('', 'c07.consumer'): {'q': [Ref('', 'c07.g'), Ref('', 'c07.g', False)]},
            ('s', 'c07.g'): {'t': 'st'},
            ('', 'c07.mut'): {'items': [64, 64], 'table': {'k': [1]}},
            ('', 'c07.en'): {'steps': 1, 'label': 's'},
        },
    },
}
EVENTS = {
    'f()': ('c07.f', [], [], {}),
    "f('pos')": ('c07.f', [], ['pos'], {}),
    'f(b=2)': ('c07.f', [], [], {'b': 2}),
    "f('pos','posb')": ('c07.f', [], ['pos', 'posb'], {}),
    "f(a='ka',nr=1)": ('c07.f', [], [], {'a': 'ka', 'nr': 1}),
    's:f()': ('c07.f', ['s'], [], {}),
    's/t:f()': ('c07.f', ['s', 't'], [], {}),
    "s:f(a='ka')": ('c07.f', ['s'], [], {'a': 'ka'}),
    'consumer()': ('c07.consumer', [], [], {}),
    "consumer('x')": ('c07.consumer', [], ['x'], {}),
    's:consumer()': ('c07.consumer', ['s'], [], {}),
    'al()': ('c07.al', [], [], {}),
    'al(y=5)': ('c07.al', [], [], {'y': 5}),
    'dl(x=7)': ('c07.dl', [], [], {'x': 7}),
    'dl()': ('c07.dl', [], [], {}),
    'K().m()': ('K.m', [], [], {}),
    'u/K().m()': ('K.m', ['u'], [], {}),
    "K().m(v='cv')": ('K.m', [], [], {'v': 'cv'}),
    'g()': ('c07.g', [], [], {}),
    'f(a=REQ)': ('c07.f', [], [], {'a': 'REQ'}),
    'f(REQ, b=REQ)': ('c07.f', [], ['REQ'], {'b': 'REQ'}),
    "s:f('pos', REQ)": ('c07.f', ['s'], ['pos', 'REQ'], {}),
    'zf()': ('c07.zf', [], [], {}),
    'zf(d=2)': ('c07.zf', [], [], {'d': 2}),
    'z0()': ('c07.z0', [], [], {}),
    'z0(0, b=None)': ('c07.z0', [], [0], {'b': None}),
    's:z0(c=True)': ('c07.z0', ['s'], [], {'c': True}),
    'mut()': ('c07.mut', [], [], {}),
    'en()': ('c07.en', [], [], {}),
    'kwd()': ('c07.kwd', [], [], {}),
    "kwd('x', k=1)": ('c07.kwd', [], ['x'], {'k': 1}),
}
EVENTS_Q = ['f()', "f('pos')", 'f(b=2)', 's:f()', 's/t:f()', 'consumer()', "consumer('x')", 'al()', 'dl()',
            'K().m()', 'u/K().m()', "K().m(v='cv')", "s:f(a='ka')", 'al(y=5)', 'g()', 'bind f.b=1', 'bind f.b=True',
            'bind g.t=%mm', 'bind g.t=%mm2', 'bind consumer.p=@s/g()', 'bind consumer.p=@u/g()', 'z0()', 'z0(0, b=None)',
            'f(a=REQ)', 'f(REQ, b=REQ)', 'zf()', 'kwd()', "kwd('x', k=1)", 'bind g.t=%mnone', 'mut()', 'en()']


def bound(tier):
  if tier == 'quick':
    return ('%d configurations x call sequences over %d events: depth<=4 on cfg_refs, depth<=3 on the two others' %
            (len(CONFIGS), len(EVENTS_Q)))
  return '%d configurations x call sequences depth<=4 over %d events' % (len(CONFIGS), len(EVENTS) + len(REBIND))


def do_event(ev):
  if ev in REBIND:
    try:
      gin.parse_config(REBIND[ev][0])
      return 'ok'
    except Exception as e:  # pylint: disable=broad-except
      return type(e).__name__
  target, scope, args, kwargs = EVENTS[ev]
  try:
    if target == 'K.m':
      if scope:
        inst = gin.get_configurable('/'.join(scope) + '/c07.K')()
      else:
        inst = gin.get_configurable(KCLS)()
      inst.m(*args, **kwargs)
    else:
      fn = {'c07.f': F, 'c07.g': G, 'c07.consumer': CONSUMER, 'c07.al': AL, 'c07.dl': DL, 'c07.z0': Z0, 'c07.zf': ZF, 'c07.kwd': KWD, 'c07.mut': MUT, 'c07.en': EN}[target]
      req = lambda v: gin.REQUIRED if v == 'REQ' else v  # noqa: E731
      with gin.config_scope(list(scope) if scope else None):
        fn(*[req(a) for a in args], **{k: req(v) for k, v in kwargs.items()})
    return 'ok'
  except Exception as e:  # pylint: disable=broad-except
    return type(e).__name__


def representable(v):
  if isinstance(v, NonRep):
    return False
  if isinstance(v, float) and (v != v or v in (float('inf'), -float('inf'))):
    return False
  if isinstance(v, (list, tuple)):
    return all(representable(x) for x in v)
  if isinstance(v, dict):
    return all(representable(x) for x in v.values())
  return True


def canon_model(v):
  if isinstance(v, Ref):
    return v.canon()
  if isinstance(v, list):
    return ['L'] + [canon_model(x) for x in v]
  if isinstance(v, tuple):
    return ('T',) + tuple(canon_model(x) for x in v)
  if isinstance(v, dict):
    return {k: canon_model(x) for k, x in v.items()}
  return ('scalar', type(v).__name__, repr(v))   # 1, True and 1.0 compare equal but are different values


def canon_real(v):
  if isinstance(v, cfg.ConfigurableReference):
    return ('ref', '/'.join(v.scopes), v.configurable.selector, v.evaluate)
  if isinstance(v, list):
    return ['L'] + [canon_real(x) for x in v]
  if isinstance(v, tuple):
    return ('T',) + tuple(canon_real(x) for x in v)
  if isinstance(v, dict):
    return {k: canon_real(x) for k, x in v.items()}
  return ('scalar', type(v).__name__, repr(v))


# events that re-bind a parameter between calls (value texts that compare equal to the previous value included)
REBIND = {
    'bind f.b=1': ("c07.f.b = 1", ('', 'c07.f'), 'b', 1),
    'bind f.b=True': ("c07.f.b = True", ('', 'c07.f'), 'b', True),
    'bind f.b=1.0': ("c07.f.b = 1.0", ('', 'c07.f'), 'b', 1.0),
    'bind g.t=%mm': ("c07.g.t = %mm\nmm = 'macroval'", ('', 'c07.g'), 't', MAC('mm')),
    'bind g.t=%mm2': ("c07.g.t = %mm2\nmm2 = 'second'", ('', 'c07.g'), 't', MAC('mm2')),
    'bind g.t=%mnone': ("c07.g.t = %mnone\nmnone = None", ('', 'c07.g'), 't', MAC('mnone')),   # a macro bound to None
    'bind consumer.p=@s/g()': ("c07.consumer.p = @s/c07.g()", ('', 'c07.consumer'), 'p', Ref('s', 'c07.g')),
    'bind consumer.p=@u/g()': ("c07.consumer.p = @u/c07.g()", ('', 'c07.consumer'), 'p', Ref('u', 'c07.g')),
}
REBIND_MACROS = {'bind g.t=%mm': (('mm', 'gin.macro'), 'macroval'), 'bind g.t=%mm2': (('mm2', 'gin.macro'), 'second'),
                 'bind g.t=%mnone': (('mnone', 'gin.macro'), None)}


class Model:
  def __init__(self, cname):
    self.config = {k: dict(v) for k, v in CONFIGS[cname]['model'].items()}
    self.record = {}
    self.nonrep_supplied = False

  def overlay(self, selector, eff):
    ov = {}
    for i in range(len(eff) + 1):
      ov.update(self.config.get(('/'.join(eff[:i]), selector), {}))
    return ov

  def call(self, selector, eff, args, kwargs, has_self=False):
    pos, defaults = SIG[selector]
    names_pos = pos[:len(args) + (1 if has_self else 0)]
    vals_pos = ([None] if has_self else []) + list(args)
    # a parameter the caller marks gin.REQUIRED is supplied by Gin, not by the caller
    supplied = {n for n, v in zip(names_pos, vals_pos) if v != 'REQ'} | {k for k, v in kwargs.items() if v != 'REQ'}
    ov = self.overlay(selector, eff)
    vals = dict(defaults)
    vals.update(ov)
    for n in supplied:
      vals.pop(n, None)
    self.record.setdefault(('/'.join(eff), selector), {}).update(vals)
    for n, v in ov.items():
      if n in supplied:
        continue
      if not representable(v):
        self.nonrep_supplied = True
      self.evaluate(v, eff)
    if selector == 'c07.f' and 'nr' not in supplied and 'nr' not in ov:
      pass  # default NonRep is supplied by Python, not by Gin

  def evaluate(self, v, eff):
    if isinstance(v, Ref):
      if v.evaluate:
        sc = v.scope.split('/') if v.scope else list(eff)
        self.call(v.selector, sc, [], {})
    elif isinstance(v, (list, tuple)):
      for x in v:
        self.evaluate(x, eff)
    elif isinstance(v, dict):
      for x in v.values():
        self.evaluate(x, eff)

  def event(self, ev):
    if ev in REBIND:
      _, key, param, val = REBIND[ev]
      self.config.setdefault(key, {})[param] = val
      if ev in REBIND_MACROS:
        mk, mv = REBIND_MACROS[ev]
        self.config.setdefault(mk, {})['value'] = mv
      return
    target, scope, args, kwargs = EVENTS[ev]
    if target == 'K.m':
      self.call('c07.K', list(scope), [], {}, has_self=True)
      self.call('c07.K.m', list(scope), args, kwargs, has_self=True)
    else:
      self.call(target, list(scope), args, kwargs)

  def expected_config(self):
    """What parsing the operative text must restore: {(scope, selector): {param: canon value}}."""
    out = {}
    for (sc, sel), params in self.record.items():
      if sel == 'gin.constant':
        continue
      d = {p: canon_model(v) for p, v in params.items() if representable(v)}
      if d:
        out[(sc, sel)] = d
    return out

  def expected_sections(self):
    return sorted((sc, sel) for (sc, sel) in self.record if sel not in ('gin.constant', 'gin.macro'))


HEADER_RE = re.compile(r'^# Parameters for (.*):$')


def sections_of(text):
  out = []
  for l in text.splitlines():
    m = HEADER_RE.match(l)
    if m:
      scoped = m.group(1)
      sc, _, sel = scoped.rpartition('/')
      full = cfg._REGISTRY.get_match(sel)
      out.append((sc, full.selector if full else sel))
  return sorted(out)


def install(cname):
  harness.hard_reset()
  del REC[:]
  gin.constant('c07.CONST', CONST)
  c = CONFIGS[cname]
  gin.parse_config(c['text'])
  for key, v in c.get('bind', []):
    gin.bind_parameter(key, v)


class World:
  CNAME = None

  def __init__(self):
    self.cname = World.CNAME
    install(self.cname)
    self.model = Model(self.cname)
    self.events = []
    self.failed = False

  def ops(self):
    return World.EVS

  def canon(self):
    return (self.cname, harness.internal_state())

  def apply(self, ev, res, hist):
    out = do_event(ev)
    self.events.append(ev)
    if out != 'ok':
      self.failed = True
    if out == 'ok':
      self.model.event(ev)
    else:
      # a failing call (e.g. missing positional) still updates the record before the body runs
      try:
        self.model.event(ev)
      except Exception:  # pylint: disable=broad-except
        pass
    if res is None:
      return
    art = {'config': self.cname, 'events': list(hist)}
    res.outcome('%s:%s' % (ev.split('(')[0], out))
    records_first = list(REC)
    text = gin.operative_config_str()
    # ---- (1) sections and parameters vs OperativeModel
    secs = sections_of(text)
    if secs != self.model.expected_sections():
      res.violation('sections', '%s after %r: sections %r, model %r\n%s' %
                    (self.cname, hist, secs, self.model.expected_sections(), text), art)
      return
    harness.hard_reset()
    gin.constant('c07.CONST', CONST)
    try:
      gin.parse_config(text)
    except Exception as e:  # pylint: disable=broad-except
      res.violation('operative_unparseable', '%s after %r: operative text does not parse (%r):\n%s' %
                    (self.cname, hist, e, text), art)
      return
    got = {k: {p: canon_real(v) for p, v in d.items()} for k, d in cfg._CONFIG.items()}
    exp = self.model.expected_config()
    if got != exp:
      missing = {k: v for k, v in exp.items() if got.get(k) != v}
      extra = {k: v for k, v in got.items() if exp.get(k) != v}
      res.violation('operative_params', '%s after %r: re-parsed operative config differs from OperativeModel;\n'
                    'model-only/changed: %r\nreal-only/changed: %r\n%s' % (self.cname, hist, missing, extra, text), art)
      return
    # ---- (2) replay
    # (replay equivalence is stated for a fixed configuration: not applied to histories that re-bind between calls)
    # ... nor to histories containing a call that failed (the statement speaks of calls that received arguments)
    if not self.model.nonrep_supplied and not self.failed and not any(e in REBIND for e in self.events):
      del REC[:]
      outs = [do_event(e) for e in self.events]
      if REC != records_first:
        res.violation('replay_records', '%s after %r: replay from the operative text gives probe records %r, first '
                      'run %r\n%s' % (self.cname, hist, REC, records_first, text), art)
      else:
        res.w('replay_same_records')
      text2 = gin.operative_config_str()
      if text2 != text:
        res.violation('replay_text', '%s after %r: replay reproduces a different operative text:\n%s\n--- first:\n%s'
                      % (self.cname, hist, text2, text), art)
      else:
        res.w('replay_same_text')
    # ---- witnesses
    rec = self.model.record
    if ev in REBIND:
      if any(e in REBIND for e in self.events[:-1]):
        res.w('rebound_between_calls')
      install(self.cname)
      for e in self.events:
        do_event(e)
      return
    if len(self.events) >= 2:
      tgt = EVENTS[ev]
      key = ('/'.join(tgt[1]), tgt[0])
      if key in rec and any(p in tgt[3] or p in SIG.get(tgt[0], ([], {}))[0][:len(tgt[2])] for p in rec[key]):
        res.w('param_from_earlier_call_kept')
    if EVENTS[ev][2] or EVENTS[ev][3]:
      res.w('caller_supplied_omitted')
    if any(sc for sc, sel in rec if sel not in ('gin.macro', 'gin.constant')):
      res.w('scoped_section')
    if any(sel == 'gin.macro' for _, sel in rec) and '# Macros:' in text:
      res.w('macro_as_definition')
    if any(sel == 'gin.constant' for _, sel in rec) and 'gin.constant' not in text:
      res.w('constant_omitted')
    if ('', 'c07.dl') in rec and 'dl.y' not in text:
      res.w('denylisted_default_omitted')
    if ('', 'c07.f') in rec and 'f.nr = <' not in text:
      res.w('nonrepresentable_omitted')
    if any(sel == 'c07.K.m' for _, sel in rec):
      res.w('method_section')
    if 'never' not in text:
      res.w('uncalled_absent')
    if any(sel == 'c07.g' and sc == 's' for sc, sel in rec):
      res.w('evaluated_ref_section')
    # restore the state for canon(): replay the events once more on a fresh install
    install(self.cname)
    for e in self.events:
      do_event(e)


# ---------------------------------------------------------------------------------- failed calls (unbound macro)
# What a call that failed records is not prescribed; that the operative text stays obtainable and parseable, and
# that later successful calls are still listed, is.
FAILED_MACRO = {
    'unbound_macro_param': ("c07.g.t = %c07undefined\n", ['g()']),
    'unbound_macro_in_list': ("c07.g.t = [1, %c07undefined]\n", ['g()']),
    'unbound_macro_then_other_calls': ("c07.g.t = %c07undefined\nc07.f.a = 'A'\n", ['g()', 'f()', 'g()']),
    'unbound_macro_via_reference': ("c07.g.t = %c07undefined\nc07.consumer.p = @c07.g()\n", ['consumer()', 'f(b=2)']),
    'unbound_scoped_macro': ("c07.g.t = %sc/c07undefined\n", ['s:f()', 'g()']),
}


def run_failed_macro(name, res):
  text, events = FAILED_MACRO[name]
  art = {'special': 'failed_macro', 'name': name}
  harness.hard_reset()
  del REC[:]
  gin.constant('c07.CONST', CONST)
  gin.parse_config(text)
  res.case(('failed_macro', name), True)
  outs = [do_event(e) for e in events]
  res.outcome('failed_macro:' + ','.join(outs))
  try:
    op_text = gin.operative_config_str()
  except Exception as e:  # pylint: disable=broad-except
    res.violation('operative_raises_after_failed_call', '%s: config %r, calls %r (outcomes %r): operative_config_str() '
                  'raised %r' % (name, text, events, outs, e), art)
    return
  ok_calls = [EVENTS[e][0] for e, o in zip(events, outs) if o == 'ok']
  secs = [sel for _, sel in sections_of(op_text)]
  lost = [c for c in ok_calls if c not in secs]
  if lost:
    res.violation('sections', '%s: successful calls %r are not listed after a failed call:\n%s' % (name, lost, op_text), art)
    return
  harness.hard_reset()
  gin.constant('c07.CONST', CONST)
  try:
    gin.parse_config(op_text)
  except Exception as e:  # pylint: disable=broad-except
    res.violation('operative_unparseable', '%s: operative text after a failed call does not parse (%r):\n%s' %
                  (name, e, op_text), art)
    return
  if 'ok' not in outs or any(o != 'ok' for o in outs):
    res.w('operative_after_failed_macro_call')


# ------------------------------------------------------------------------- a read overlapping a call (one fixed schedule)
# (the interleavings are C18's subject and are explored there; this single schedule — the read is in the middle of
#  formatting when another thread's call adds a parameter to the very section being formatted — is pinned with a value
#  whose repr starts that call)
class ReprStartsCall(int):
  started = []

  def __repr__(self):
    if not ReprStartsCall.started:
      import threading  # pylint: disable=import-outside-toplevel
      t = threading.Thread(target=lambda: ReprStartsCall.errors.extend(_try(TH)))
      ReprStartsCall.started.append(t)
      t.start()
      t.join(0.4)          # with the lock held by the reader the call cannot proceed yet: this times out
    return int.__repr__(self)
  errors = []


def _try(fn):
  try:
    fn()
    return []
  except Exception as e:  # pylint: disable=broad-except
    return [e]


def run_read_overlapping_call(res):
  art = {'special': 'read_overlapping_call'}
  harness.hard_reset()
  del ReprStartsCall.started[:]
  del ReprStartsCall.errors[:]
  res.case(('read_overlapping_call',), True)
  gin.bind_parameter('c07.th.a', ReprStartsCall(7))
  TH(b='caller')                 # records a (bound), not b (caller-supplied)
  try:
    text = gin.operative_config_str()
  except Exception as e:  # pylint: disable=broad-except
    res.violation('read_failed_because_of_a_call', 'operative_config_str() overlapping a call in another thread raised %r' % (e,), art)
    for t in ReprStartsCall.started:
      t.join(5)
    return
  for t in ReprStartsCall.started:
    t.join(5)
  if ReprStartsCall.errors or any(t.is_alive() for t in ReprStartsCall.started):
    res.violation('read_failed_because_of_a_call', 'the overlapping call failed / never returned: %r' % (ReprStartsCall.errors,), art)
    return
  after = gin.operative_config_str()
  if 'th.a = 7' not in text or 'th.b' not in after:
    res.violation('operative_params', 'read overlapping a call: first text\n%s\nlater text\n%s' % (text, after), art)
    return
  res.w('read_overlapping_call')


# ------------------------------------------------------------------------- dynamic registration: same-named modules
def run_dynamic_collisions(n, res):
  import importlib  # pylint: disable=import-outside-toplevel
  art = {'special': 'dynamic_collisions', 'n': n}
  pks = ['c07pa', 'c07pb', 'c07pc', 'c07pd'][:n]
  harness.hard_reset()
  res.case(('dynamic_collisions', n), True)
  head = 'from __gin__ import dynamic_registration\n'
  mods = [importlib.import_module(pk + '.nets') for pk in pks]

  def calls():
    return [gin.get_configurable(m.build)() for m in mods]
  try:
    for i, pk in enumerate(pks):
      gin.parse_config(head + 'from %s import nets\nnets.build.width = %d\n' % (pk, 10 * (i + 1)))
    first = calls()
    text = gin.operative_config_str()
    harness.hard_reset()
    gin.parse_config(text)
    second = calls()
    text2 = gin.operative_config_str()
  except Exception as e:  # pylint: disable=broad-except
    res.violation('operative_unparseable', 'dynamic registration, %d modules named nets: %r' % (n, e), art)
    return
  res.outcome('dynamic_collisions')
  if second != first:
    res.violation('replay_records', 'dynamic registration, %d modules named nets: replay from the operative text gives %r, '
                  'first run %r\n%s' % (n, second, first, text), art)
  elif text2 != text:
    res.violation('replay_text', 'dynamic registration, %d modules named nets: replay reproduces a different text:\n%s\n'
                  '--- first:\n%s' % (n, text2, text), art)
  else:
    res.w('same_named_modules_replayed')


# ----------------------------------------------------------------------------------------- dotted scope names
# A call under a scope whose component contains a period (config_scope accepts it, and so does the parser in
# `@a.b/c07.g()`) is recorded under that scope: the operative text must still replay.
DOTTED = {
    'config_scope_block': ("c07.g.t = 'T'\n", 'block'),
    'evaluated_reference': ("c07.g.t = 'T'\nc07.consumer.p = @a.b/c07.g()\n", 'reference'),
}


def run_dotted_scope(name, res):
  text, how = DOTTED[name]
  art = {'special': 'dotted_scope', 'name': name}

  def calls():
    del REC[:]
    if how == 'block':
      with gin.config_scope('a.b'):
        gin.get_configurable('c07.g')()
    else:
      gin.get_configurable('c07.consumer')()
    return list(REC)
  harness.hard_reset()
  gin.parse_config(text)
  res.case(('dotted_scope', name), True)
  first = calls()
  op_text = gin.operative_config_str()
  harness.hard_reset()
  try:
    gin.parse_config(op_text)
  except Exception as e:  # pylint: disable=broad-except
    res.violation('dotted_scope_operative_unparseable', '%s: config %r, a call under the scope a.b: the operative text does '
                  'not parse (%r):\n%s' % (name, text, e, op_text), art)
    return
  second = calls()
  if second != first or gin.operative_config_str() != op_text:
    res.violation('replay_differs', '%s: replay of the operative text gave %r, first run %r' % (name, second, first), art)
  else:
    res.w('dotted_scope_replayed')


def run(ctx):
  res = core.Result()
  for name in FAILED_MACRO:
    run_failed_macro(name, res)
  for name in DOTTED:
    run_dotted_scope(name, res)
  for text in ODD_REPRS + ['HUGE']:
    run_odd_repr(text, res)
  for cc in (False, True):
    run_singleton_replay(cc, res)
  import itertools  # pylint: disable=import-outside-toplevel
  for k in (1, 2, 3):
    for order in itertools.permutations(sorted(SH), k):
      run_shared_function(order, res)
  for n in (2, 3, 4):
    run_dynamic_collisions(n, res)
  run_read_overlapping_call(res)
  harness.hard_reset()
  mod = __import__('checks.c07', fromlist=['x'])
  evs = EVENTS_Q if ctx.quick else list(EVENTS) + list(REBIND)
  depth = 4      # (thorough: the full event menu at this depth on every configuration)
  res.extra['alphabet'] = evs
  for cname in CONFIGS:
    ctx.close()  # workers must see World.CNAME
    World.CNAME = cname
    World.EVS = evs
    r = core.Result()
    # quick: full depth on the configuration with references / macros / scopes, one less on the two others
    d = depth if (not ctx.quick or cname == 'cfg_refs') else depth - 1
    res.extra.setdefault('depth_per_config', {})[cname] = d
    bfs.run_bfs(ctx, mod, d, r, max_states=300000)
    res.extra.setdefault('per_config', {})[cname] = {'states': r.states, 'transitions': r.transitions}
    res.merge(r)
  ctx.close()
  return res


def replay(obj):
  if obj.get('special') == 'singleton_replay':
    res = core.Result()
    run_singleton_replay(obj['clear_constants'], res)
    harness.hard_reset()
    return res
  if obj.get('special') == 'odd_repr':
    res = core.Result()
    run_odd_repr(obj['repr'], res)
    harness.hard_reset()
    return res
  if obj.get('special') == 'shared_function':
    res = core.Result()
    run_shared_function(obj['order'], res)
    harness.hard_reset()
    return res
  if obj.get('special') == 'dotted_scope':
    res = core.Result()
    run_dotted_scope(obj['name'], res)
    harness.hard_reset()
    return res
  if obj.get('special') == 'read_overlapping_call':
    res = core.Result()
    run_read_overlapping_call(res)
    harness.hard_reset()
    return res
  if obj.get('special') == 'dynamic_collisions':
    res = core.Result()
    run_dynamic_collisions(obj['n'], res)
    harness.hard_reset()
    return res
  if obj.get('special') == 'failed_macro':
    res = core.Result()
    run_failed_macro(obj['name'], res)
    harness.hard_reset()
    return res
  World.CNAME = obj['config']
  World.EVS = list(EVENTS) + list(REBIND)
  mod = __import__('checks.c07', fromlist=['x'])
  return bfs.replay_history(mod, obj['events'])
