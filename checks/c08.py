"""C08 — names resolve by unique dotted suffix, identically through every API.

Part A (E1, explicit-state BFS on the real SelectorMap): all histories of insert / overwrite / pop / copy /
clear / invalid-insert over a small pool of dotted names, on up to two live map objects (an original and a
copy).  States are real objects (deep-copied together, so accidental structure sharing between original and
copy is preserved) and are deduplicated on a canonical form of the *internal* tree + flat map + sharing
pattern.  After every transition every query string over the component alphabet is asked of every object
and compared with a flat-set reference model.

Part B (E3, API level): every pair (spelling used to bind, spelling used to read) of one parameter through
every binding / reading API must hit the same key; finalize hooks spelling one parameter differently conflict.
"""
import copy
import itertools

from vf import core
from vf import harness
from vf.harness import gin, cfg, selector_map

ID = 'C08'
LEVEL = 'model_checking'
RULE = ('A: BFS over operation histories (insert/overwrite/pop/copy/clear/invalid insert) on real SelectorMap '
        'objects, dedup on canonical internal tree+map+sharing; after each transition all query strings x all '
        'public lookups are compared with a flat-set model (one evaluation per (state, object, query, method)). '
        'B: every (bind spelling x API) x (read spelling x API) pair on real gin. A case is non-trivial when the '
        'map holds >=2 names sharing a suffix or the spelling pair differs.')
ASSUMPTIONS = ['name alphabet {a,b,c} with <=3 components stored and <=4 queried; at most 2 live map objects',
               'reference model: flat dict + brute-force suffix test']
WITNESSES = ['percent_spelling_is_gin_macro', 'method_names_resolve_back', 'unknown_skipped_silently', 'ambiguous', 'exact_precedence', 'unknown', 'minimal_shorter_than_full', 'copy_diverged',
             'pop_pruned', 'spelling_pair_same_key', 'hook_conflict_detected', 'api_ambiguous_rejected']

POOL_Q = ['b', 'a.b', 'c.a.b', 'c.b', 'a.a', 'b.a', 'a.c.b', 'c', 'a.B']
POOL_T = POOL_Q + ['a', 'b.a.b', 'a.b.a', 'c.c.b', 'b.c', 'b.b', 'B', 'A.b', '_x1.b']
INVALID = ['', 'a..b', '.a', 'a.', '1a', 'a b', 'a/b']
# names whose OUTER component is the invalid one (the inner components are names that are, or could be, stored)
INVALID_OUTER = ['1x.a.b', 'x-y.b', '9.c.a.b', 'a b.a']


def bound(tier):
  return ('A: %d names, depth<=%d, queries len<=%d over {a,b,c}; B: full spelling x API product' %
          ((len(POOL_Q), 4, 3) if tier == 'quick' else (len(POOL_T), 5, 4)))


def queries(maxlen):
  out = []
  for n in range(1, maxlen + 1):
    for t in itertools.product('abc', repeat=n):
      out.append('.'.join(t))
  return out + ['d', 'a.d', 'd.a', 'B', 'a.B', 'A.b', 'A', 'c.a.B', '_x1.b', '_x1']


# ----------------------------------------------------------------------------- reference model
def m_matches(names, q):
  if q in names:
    return [q]
  return [n for n in names if n.endswith('.' + q)]


def m_minimal_ok(names, n, r):
  """r must be a suffix of n that resolves to exactly n, and no strictly shorter suffix does."""
  comps = n.split('.')
  sufs = ['.'.join(comps[i:]) for i in range(len(comps) - 1, -1, -1)]  # shortest first
  if r not in sufs:
    return 'not a suffix'
  if m_matches(names, r) != [n]:
    return 'does not resolve back'
  for s in sufs:
    if s == r:
      return None
    if m_matches(names, s) == [n]:
      return 'shorter suffix %r also resolves to it' % s
  return None


# ----------------------------------------------------------------------------- state handling
def canon(objs):
  """Canonical form of the internal state of the live objects, including dict sharing between them."""
  ids = {}

  def walk(node, path, oi):
    key = id(node)
    alias = ids.get(key)
    if alias is None:
      ids[key] = (oi, path)
    items = []
    for k in sorted(node):
      v = node[k]
      if isinstance(v, dict):
        items.append((k, walk(v, path + (k,), oi)))
      else:
        items.append((k, v))
    return (alias, tuple(items))

  out = []
  for oi, sm in enumerate(objs):
    out.append((walk(sm._selector_tree, (), oi), tuple(sorted(sm._selector_map.items()))))
  return tuple(out)


def apply_op(objs, models, op):
  """Applies op to real objects and to models. Returns (error string or None)."""
  kind = op[0]
  if kind == 'ins':
    _, i, n, tag = op
    objs[i][n] = tag + n
    models[i][n] = tag + n
  elif kind == 'pop':
    _, i, n = op
    if n in models[i]:
      got = objs[i].pop(n)
      exp = models[i].pop(n)
      if got != exp:
        return 'pop(%r) returned %r, model %r' % (n, got, exp)
    else:
      try:
        objs[i].pop(n)
        return 'pop(%r) of absent name did not raise' % n
      except KeyError:
        pass
  elif kind == 'copy':
    _, i, how = op
    objs.append(objs[i].copy() if how == 'copy' else copy.copy(objs[i]))
    models.append(dict(models[i]))
  elif kind == 'clear':
    _, i = op
    objs[i].clear()
    models[i].clear()
  elif kind == 'bad':
    _, i, s = op
    try:
      objs[i][s] = 'X'
      return 'invalid selector %r accepted' % s
    except ValueError:
      pass
  return None


def ops_for(objs, pool):
  out = []
  for i in range(len(objs)):
    for n in pool:
      out.append(('ins', i, n, 'V:'))
    out.append(('ins', i, pool[1], 'W:'))  # overwrite with a different value
    for n in pool:
      out.append(('pop', i, n))
    out.append(('clear', i))
    out.append(('bad', i, INVALID[(len(objs[i]) + i) % len(INVALID)]))
    for bad in INVALID_OUTER:
      out.append(('bad', i, bad))
  if len(objs) < 2:
    out.append(('copy', 0, 'copy'))
    out.append(('copy', 0, '__copy__'))
  return out


def check_state(objs, models, qs, res, hist):
  """Compares every public lookup on every object with the model."""
  for i, (sm, m) in enumerate(zip(objs, models)):
    names = sorted(m)
    shared_suffix = len(names) >= 2
    if len(sm) != len(m):
      res.violation('len', 'len %d != model %d after %r' % (len(sm), len(m), hist), hist)
    if dict(sm.items()) != m:
      res.violation('items', 'items() %r != model %r after %r' % (dict(sm.items()), m, hist), hist)
    for q in qs:
      exp = m_matches(names, q)
      key = (tuple(names), q)
      try:
        got = sm.matching_selectors(q)
      except Exception as e:  # pylint: disable=broad-except
        got = e
      res.case(('ms', i) + key, shared_suffix)
      if not isinstance(got, list) or sorted(got) != sorted(exp) or len(got) != len(set(got)):
        res.violation('matching_selectors', 'obj%d names=%r matching_selectors(%r)=%r model=%r after %r' %
                      (i, names, q, got, exp, hist), hist)
      # get_match
      sentinel = object()
      try:
        gm = sm.get_match(q, sentinel)
        gm_kind = 'default' if gm is sentinel else 'value'
      except KeyError as e:
        gm, gm_kind = None, ('ambiguous' if 'Ambiguous' in str(e) else 'raised %r' % (e,))
      except Exception as e:  # pylint: disable=broad-except
        gm, gm_kind = None, 'raised %r' % (e,)
      exp_kind = 'default' if not exp else ('value' if len(exp) == 1 else 'ambiguous')
      res.case(('gm', i) + key, shared_suffix)
      res.outcome('get_match:' + gm_kind)
      if gm_kind != exp_kind or (gm_kind == 'value' and gm != m[exp[0]]):
        res.violation('get_match', 'obj%d names=%r get_match(%r) -> %s %r, model %s %r after %r' %
                      (i, names, q, gm_kind, gm, exp_kind, exp, hist), hist)
      if exp_kind == 'ambiguous':
        res.w('ambiguous')
      elif exp_kind == 'default':
        res.w('unknown')
      elif q in m and any(n != q and n.endswith('.' + q) for n in names):
        res.w('exact_precedence')
      # get_all_matches
      try:
        gam = sm.get_all_matches(q)
      except Exception as e:  # pylint: disable=broad-except
        gam = ['raised %r' % (e,)]
      res.case(('gam', i) + key, shared_suffix)
      if sorted(gam) != sorted(m[n] for n in exp):
        res.violation('get_all_matches', 'obj%d names=%r get_all_matches(%r)=%r model=%r after %r' %
                      (i, names, q, gam, [m[n] for n in exp], hist), hist)
      # exact-name API
      res.case(('in', i) + key, shared_suffix)
      if (q in sm) != (q in m) or sm.get(q, sentinel) is not (m[q] if q in m else sentinel) and \
          sm.get(q, sentinel) != m.get(q, sentinel):
        res.violation('contains_get', 'obj%d names=%r in/get(%r) disagree with model after %r' %
                      (i, names, q, hist), hist)
      try:
        gi = sm[q]
        ok = q in m and gi == m[q]
      except KeyError:
        ok = q not in m
      if not ok:
        res.violation('getitem', 'obj%d names=%r [%r] disagrees with model after %r' % (i, names, q, hist), hist)
      # minimal selector
      if q in m:
        try:
          r = sm.minimal_selector(q)
          why = m_minimal_ok(names, q, r)
        except Exception as e:  # pylint: disable=broad-except
          r, why = e, 'raised'
        res.case(('min', i) + key, True)
        if why:
          res.violation('minimal_selector', 'obj%d names=%r minimal_selector(%r)=%r: %s; after %r' %
                        (i, names, q, r, why, hist), hist)
        elif r != q:
          res.w('minimal_shorter_than_full')
      else:
        try:
          sm.minimal_selector(q)
          res.violation('minimal_selector_absent', 'obj%d minimal_selector(%r) of absent name did not raise '
                        'after %r' % (i, q, hist), hist)
        except KeyError:
          pass
  if len(models) == 2 and models[0] != models[1]:
    res.w('copy_diverged')


def tree_size(sm):
  def n(d):
    return 1 + sum(n(v) for v in d.values() if isinstance(v, dict))
  return n(sm._selector_tree)


_CFG = {}


def _expand(chunk):
  """Worker: expands a slice of the frontier by every op. Returns (result, successors)."""
  pool, qs = _CFG['pool'], _CFG['qs']
  res = core.Result()
  succ = []
  for objs, models, hist in chunk:
    for op in ops_for(objs, pool):
      o2, m2 = copy.deepcopy((objs, models))
      before = tree_size(o2[op[1]]) if op[0] == 'pop' else 0
      h2 = hist + [list(op)]
      try:
        err = apply_op(o2, m2, op)
      except Exception as e:  # pylint: disable=broad-except
        err = 'op raised %r' % (e,)
      res.transitions += 1
      if err:
        res.violation('op:' + op[0], '%s after %r' % (err, h2), h2)
        continue
      if op[0] == 'pop' and op[2] in models[op[1]] and tree_size(o2[op[1]]) < before:
        res.w('pop_pruned')
      check_state(o2, m2, qs, res, h2)
      succ.append((core.h64(canon(o2)), o2, m2, h2))
  return res, succ


def replay_hist(hist, pool, qs):
  res = core.Result()
  objs, models = [selector_map.SelectorMap()], [{}]
  for k, op in enumerate(hist):
    op = tuple(op)
    try:
      err = apply_op(objs, models, op)
    except Exception as e:  # pylint: disable=broad-except
      err = 'op raised %r' % (e,)
    if err:
      res.violation('op:' + op[0], '%s after %r' % (err, hist[:k + 1]), hist[:k + 1])
      return res
    check_state(objs, models, qs, res, hist[:k + 1])
  return res


def run_a(ctx, res):
  quick = ctx.quick
  pool = POOL_Q if quick else POOL_T
  depth = 4 if quick else 5
  qs = queries(3 if quick else 4)
  _CFG.update(pool=pool, qs=qs)
  ctx.close()  # workers must be forked after _CFG is set
  init = ([selector_map.SelectorMap()], [{}], [])
  seen = {core.h64(canon(init[0]))}
  frontier = [init]
  res.states = 1
  max_states = 40000 if quick else 400000
  for d in range(depth):
    if not frontier:
      res.extra['fixpoint_at_depth'] = d
      break
    n = max(1, min(len(frontier), ctx.jobs * 4))
    chunks = [frontier[i::n] for i in range(n)]
    nxt = []
    for r, succ in ctx.pmap(_expand, chunks):
      res.merge(r)
      for h, o2, m2, h2 in succ:
        if h not in seen:
          seen.add(h)
          nxt.append((o2, m2, h2))
    nxt.sort(key=lambda t: repr(t[2]))
    if len(seen) > max_states:
      res.capped = True
      res.extra['cap_note'] = 'state cap %d hit at depth %d; all shallower depths fully covered' % (max_states, d + 1)
      nxt = nxt[:max(0, max_states // 8)]
    frontier = nxt
    res.extra['depth_completed'] = d + 1
    res.traces += len(nxt)
    if nxt:
      res.sample({'history': nxt[len(nxt) // 2][2]})
  res.states = len(seen)
  res.extra['frontier_left'] = len(frontier)


# ----------------------------------------------------------------------------- part B: API level
def setup():
  def mk(tag):
    def fn(x=None, y=None):
      return (tag, x, y)
    fn.__name__ = 'fn'
    return fn
  global P_MAIN, P_OTHER, P_SOLO
  P_MAIN = gin.external_configurable(mk('main'), name='fn', module='pkg.mod')
  P_OTHER = gin.external_configurable(mk('other'), name='fn', module='other.mod')
  P_SOLO = gin.external_configurable(mk('solo'), name='solo', module='x.y')
  gin.constant('cpk.mod.KONST', ('konst',))
  gin.constant('cother.mod.KONST', ('konst2',))

  @gin.configurable(module='cons')
  def consumer(r=None):
    return r
  global CONSUMER
  CONSUMER = consumer


SPELL_OK = ['pkg.mod.fn', 'pkg.mod.fn']  # filled below
SPELLINGS = {'pkg.mod.fn': 'main', 'other.mod.fn': 'other', 'mod.fn': 'AMBIG', 'fn': 'AMBIG',
             'g.mod.fn': 'UNKNOWN', 'mod.pkg.fn': 'UNKNOWN', 'pkg.fn': 'UNKNOWN',
             'x.y.solo': 'solo', 'y.solo': 'solo', 'solo': 'solo', 'z.solo': 'UNKNOWN'}
SCOPES = ['', 's', 's/t']


def binders():
  def b_str(scope, sp, v):
    gin.bind_parameter((scope + '/' if scope else '') + sp + '.x', v)

  def b_tuple(scope, sp, v):
    gin.bind_parameter((scope, sp, 'x'), v)

  def b_list(scope, sp, v):
    gin.bind_parameter([scope, sp, 'x'], v)

  def b_text(scope, sp, v):
    gin.parse_config('%s%s.x = %r' % (scope + '/' if scope else '', sp, v))

  def b_block(scope, sp, v):
    gin.parse_config('%s%s:\n  x = %r\n' % (scope + '/' if scope else '', sp, v))

  def b_pbk(scope, sp, v):
    gin.bind_parameter(cfg.ParsedBindingKey.parse((scope, sp, 'x')), v)

  # lenient parsing drops statements about UNKNOWN names only: an ambiguous name stays an error, a known one binds
  def b_text_skip(scope, sp, v):
    gin.parse_config('%s%s.x = %r' % (scope + '/' if scope else '', sp, v), skip_unknown=True)

  def b_block_skip(scope, sp, v):
    gin.parse_config('%s%s:\n  x = %r\n' % (scope + '/' if scope else '', sp, v), skip_unknown=True)

  def b_text_list_skip(scope, sp, v):
    gin.parse_config('%s%s.x = %r' % (scope + '/' if scope else '', sp, v), skip_unknown=[sp, 'nothing.else'])

  return [('str', b_str), ('tuple', b_tuple), ('list', b_list), ('text', b_text), ('block', b_block),
          ('pbk', b_pbk), ('text_skip', b_text_skip), ('block_skip', b_block_skip), ('text_list_skip', b_text_list_skip)]


def readers():
  def r_query(scope, sp):
    return gin.query_parameter((scope + '/' if scope else '') + sp + '.x')

  def r_bindings(scope, sp):
    return gin.get_bindings((scope + '/' if scope else '') + sp, inherit_scopes=False)['x']

  def r_getconf(scope, sp):
    return gin.get_configurable((scope + '/' if scope else '') + sp)()[1]

  def r_ref(scope, sp):
    gin.parse_config('cons.consumer.r = @%s%s()' % (scope + '/' if scope else '', sp))
    return CONSUMER()[1]

  def r_ref_uneval(scope, sp):
    gin.parse_config('cons.consumer.r = @%s%s' % (scope + '/' if scope else '', sp))
    return CONSUMER()()[1]

  def r_scope_call(scope, sp):
    with gin.config_scope(scope or None):
      return gin.get_configurable(sp)()[1]

  return [('query', r_query), ('get_bindings', r_bindings), ('get_configurable', r_getconf),
          ('ref_eval', r_ref), ('ref_uneval', r_ref_uneval), ('scope+get_configurable', r_scope_call)]


def b_cases():
  for (bn, _), (rn, _) in itertools.product(binders(), readers()):
    for scope in SCOPES:
      for sp_b, sp_r in itertools.product(SPELLINGS, SPELLINGS):
        yield [bn, rn, scope, sp_b, sp_r]


def run_b_case(case, res):
  bn, rn, scope, sp_b, sp_r = case
  bfn = dict(binders())[bn]
  rfn = dict(readers())[rn]
  harness.hard_reset()
  tb, tr = SPELLINGS[sp_b], SPELLINGS[sp_r]
  val = ('val', sp_b)
  nontrivial = sp_b != sp_r
  res.case(tuple(case), nontrivial)
  before = gin.config_str()
  try:
    bfn(scope, sp_b, val)
    b_out = 'ok'
  except Exception as e:  # pylint: disable=broad-except
    b_out = type(e).__name__
  if tb == 'UNKNOWN' and bn.endswith('_skip'):
    res.outcome('bind:UNKNOWN_skipped:' + b_out)
    if b_out != 'ok' or gin.config_str() != before:
      res.violation('skip_unknown_not_silent', 'lenient parse (%s) of unknown spelling %r: %s, config changed=%s' %
                    (bn, sp_b, b_out, gin.config_str() != before), case)
    else:
      res.w('unknown_skipped_silently')
    return
  if tb in ('AMBIG', 'UNKNOWN'):
    res.outcome('bind:' + tb + ':' + b_out)
    if b_out == 'ok':
      res.violation('bind_accepts_' + tb.lower(), 'binding via %s with %s spelling %r was accepted' %
                    (bn, tb, sp_b), case)
    else:
      if tb == 'AMBIG':
        res.w('api_ambiguous_rejected')
      if gin.config_str() != before:
        res.violation('bind_reject_changed_config', 'rejected binding %r via %s changed the config' %
                      (sp_b, bn), case)
    return
  if b_out != 'ok':
    res.violation('bind_rejects_valid', 'binding via %s spelling %r raised %s' % (bn, sp_b, b_out), case)
    return
  try:
    got = rfn(scope, sp_r)
    r_out = 'ok'
  except Exception as e:  # pylint: disable=broad-except
    got, r_out = e, type(e).__name__
  res.outcome('read:%s:%s' % (tr if tr in ('AMBIG', 'UNKNOWN') else ('same' if tr == tb else 'other'), r_out))
  if tr in ('AMBIG', 'UNKNOWN'):
    if r_out == 'ok':
      res.violation('read_accepts_' + tr.lower(), 'reading via %s with %s spelling %r returned %r' %
                    (rn, tr, sp_r, got), case)
    return
  if tr == tb:
    if r_out != 'ok' or got != val:
      res.violation('spelling_mismatch', 'bound %r via %s (scope %r), read %r via %s -> %r' %
                    (sp_b, bn, scope, sp_r, rn, got), case)
    elif nontrivial:
      res.w('spelling_pair_same_key')
  else:  # a different configurable: must not see the binding
    if r_out == 'ok' and got == val:
      res.violation('spelling_leak', 'bound %r, but %r (another configurable) sees the value via %s' %
                    (sp_b, sp_r, rn), case)


HOOK_SPELLINGS = ['pkg.mod.fn', 'x.y.solo', 'y.solo', 'solo']


def hook_cases():
  for scope in ['', 's']:
    for a, b in itertools.product(HOOK_SPELLINGS, HOOK_SPELLINGS):
      for form in ['str', 'tuple']:
        yield ['hook', scope, a, b, form]
  for bsp in ['batch = 7', 'batch/macro.value = 7', 'batch/gin.macro.value = 7']:
    for rsp in ['%batch', '@batch/macro()', '@batch/gin.macro()']:
      yield ['macro_spelling', bsp, rsp]
  for c in ['KONST', 'mod.KONST', 'cpk.mod.KONST', 'cother.mod.KONST', 'zz.KONST', 'pk.mod.KONST']:
    for how in ['macro', 'query']:
      yield ['const', c, how]


def run_hook_case(case, res):
  harness.hard_reset()
  if case[0] == 'macro_spelling':
    _, bsp, rsp = case
    res.case(tuple(case), True)
    try:
      gin.parse_config(bsp + '\ncons.consumer.r = ' + rsp)
      got = CONSUMER()
      gin.finalize()
      out = 'ok'
    except Exception as e:  # pylint: disable=broad-except
      got, out = e, type(e).__name__
    res.outcome('macro_spelling:' + out)
    if out != 'ok' or got != 7:
      res.violation('macro_spelling_key', 'macro bound as %r and referenced as %r: %s %r (every spelling of one name '
                    'is the same key; finalize must accept the bound macro)' % (bsp, rsp, out, got), case)
    else:
      res.w('spelling_pair_same_key')
    return
  if case[0] == 'const':
    _, c, how = case
    res.case(tuple(case), True)
    exp = {'KONST': 'AMBIG', 'mod.KONST': 'AMBIG', 'cpk.mod.KONST': ('konst',), 'cother.mod.KONST': ('konst2',),
           'zz.KONST': 'UNKNOWN', 'pk.mod.KONST': 'UNKNOWN'}[c]
    try:
      if how == 'macro':
        gin.parse_config('cons.consumer.r = %' + c)
        got = CONSUMER()
      else:
        got = gin.query_parameter(c)
      out = 'ok'
    except Exception as e:  # pylint: disable=broad-except
      got, out = e, type(e).__name__
    res.outcome('const:%s:%s' % (exp if isinstance(exp, str) else 'value', out))
    if isinstance(exp, tuple):
      if out != 'ok' or got != exp:
        res.violation('const_suffix', 'constant %%%s via %s -> %r, expected %r' % (c, how, got, exp), case)
    elif exp == 'AMBIG':
      if out == 'ok':
        res.violation('const_ambiguous_accepted', 'ambiguous constant %%%s via %s -> %r' % (c, how, got), case)
      res.w('api_ambiguous_rejected')
    else:  # UNKNOWN: a macro use of an unknown name is a legal (so far unbound) macro; query must fail
      if how == 'query' and out == 'ok':
        res.violation('const_unknown_accepted', 'unknown constant %s via query -> %r' % (c, got), case)
    return
  _, scope, a, b, form = case
  same = SPELLINGS[a] == SPELLINGS[b]
  res.case(tuple(case), a != b)

  def key(sp):
    return (scope, sp, 'x') if form == 'tuple' else (scope + '/' if scope else '') + sp + '.x'
  gin.config.register_finalize_hook(lambda config: {key(a): 1})
  gin.config.register_finalize_hook(lambda config: {key(b): 2})
  before = gin.config_str()
  try:
    gin.finalize()
    out = 'ok'
  except ValueError:
    out = 'ValueError'
  except Exception as e:  # pylint: disable=broad-except
    out = type(e).__name__
  res.outcome('hooks:%s:%s' % ('same' if same else 'different', out))
  if same:
    if out != 'ValueError':
      res.violation('hook_conflict_missed', 'two hooks set %r and %r (same parameter) and finalize -> %s; '
                    'config now: %r' % (key(a), key(b), out, gin.config_str()), case)
    else:
      res.w('hook_conflict_detected')
      if gin.config_is_locked() or gin.config_str() != before:
        res.violation('hook_conflict_modified', 'conflicting hooks rejected but config locked/modified', case)
  else:
    if out != 'ok':
      res.violation('hook_false_conflict', 'hooks on different parameters %r / %r -> %s' % (key(a), key(b), out), case)
    elif not gin.config_is_locked():
      res.violation('hook_not_locked', 'finalize succeeded but config not locked', case)


def _run_b_chunk(chunk):
  res = core.Result()
  for case in chunk:
    try:
      if case[0] in ('hook', 'const', 'macro_spelling'):
        run_hook_case(case, res)
      else:
        run_b_case(case, res)
    except Exception:  # pylint: disable=broad-except
      import traceback
      res.extra['harness_error'] = traceback.format_exc() + '\ncase=%r' % (case,)
  harness.hard_reset()
  return res


# ------------------------------------------------------ names reported for methods of same-named classes resolve back
def run_method_names(res):
  case = ['method_names']
  harness.hard_reset()
  res.case(tuple(case), True)
  classes = {}
  for modname in ('c08east.jobs', 'c08west.jobs', 'c08west.other'):
    ns = {}
    exec('class Net:\n  def __init__(self, n=None):\n    self.n = n\n'  # pylint: disable=exec-used
         '  def build(self, units=None):\n    return units\n  def fit(self, steps=None):\n    return steps\n', ns)
    N = ns['Net']
    N.__module__ = modname
    N.build.__module__ = N.fit.__module__ = modname
    gin.register(N.build)
    if modname != 'c08west.other':
      gin.register(N.fit)
    gin.register(N)
    classes[modname] = N
  want = {}
  for i, modname in enumerate(classes):
    gin.bind_parameter(modname + '.Net.build.units', i)
    want[('', modname + '.Net.build')] = {'units': i}
  gin.bind_parameter('c08east.jobs.Net.fit.steps', 7)
  want[('', 'c08east.jobs.Net.fit')] = {'steps': 7}
  problems = []
  for sel in [k[1] for k in want]:
    shortest = cfg._REGISTRY.minimal_selector(sel)
    back = cfg._REGISTRY.matching_selectors(shortest)
    if back != [sel]:
      problems.append('minimal_selector(%r) = %r resolves to %r' % (sel, shortest, back))
  try:
    text = gin.config_str()
    gin.clear_config()
    gin.parse_config(text)
    got = {k: dict(v) for k, v in cfg._CONFIG.items()}
    if got != want:
      problems.append('config_str names resolve to %r, expected %r\n%s' % (got, want, text))
  except Exception as e:  # pylint: disable=broad-except
    problems.append('the names config_str reports do not resolve back: %r' % (e,))
  if problems:
    res.violation('minimal_selector', '%r: %s' % (case, '; '.join(problems)), case)
  else:
    res.w('method_names_resolve_back')
  harness.hard_reset()


def run_user_macro(res):
  """`%name` is spelled through gin's own macro configurable, whatever else a user registers under the name `macro`."""
  case = ['user_configurable_named_macro']
  harness.hard_reset()
  res.case(tuple(case), True)

  def macro(value=None):
    return ('user macro', value)
  gin.external_configurable(macro, name='macro', module='c08userlib')
  try:
    gin.bind_parameter('%c08m', 5)
    q = gin.query_parameter('%c08m')
    gin.parse_config('cons.consumer.r = %c08m\nc08m2 = 6')
    got = (q, CONSUMER(), gin.query_parameter('%c08m2'))
  except Exception as e:  # pylint: disable=broad-except
    res.violation('spelling_mismatch', '%r: with a user configurable named `macro` registered, the %%name spelling of a '
                  'macro raised %r' % (case, e), case)
    harness.hard_reset()
    return
  if got != (5, 5, 6):
    res.violation('spelling_mismatch', '%r: got %r, expected (5, 5, 6)' % (case, got), case)
  else:
    res.w('percent_spelling_is_gin_macro')
  harness.hard_reset()


def run_reference_spellings(res):
  """References: every unambiguous spelling of one configurable is the same key (equal, same hash, one dict entry), and
  a binding written with a longer spelling is as representable as one written with the shortest."""
  import itertools  # pylint: disable=import-outside-toplevel
  case = ['reference_spellings']
  harness.hard_reset()
  res.case(tuple(case), True)
  for ev in ('', '()'):
    refs = {sp: cfg.parse_value('@' + sp + ev) for sp in HOOK_SPELLINGS[1:]}         # x.y.solo, y.solo, solo
    for (sa, a), (sb, b) in itertools.combinations(refs.items(), 2):
      if not (a == b and not (a != b) and hash(a) == hash(b) and len({a: 1, b: 2}) == 1):
        res.violation('spelling_mismatch', '%r: the references @%s%s and @%s%s name one configurable but are different keys '
                      '(==: %s, same hash: %s)' % (case, sa, ev, sb, ev, a == b, hash(a) == hash(b)), case)
        harness.hard_reset()
        return
    for sp in refs:
      harness.hard_reset()
      gin.parse_config('cons.consumer.r = @%s%s\n' % (sp, ev))
      text = gin.config_str()
      if 'consumer.r = @' not in text:
        res.violation('spelling_mismatch', '%r: a binding written as @%s%s is missing from the config string:\n%s' %
                      (case, sp, ev, text), case)
        harness.hard_reset()
        return
  res.w('reference_spellings_one_key')
  harness.hard_reset()


def run_nested_constants_after_clear(res):
  """Constants whose names nest by suffix (definable longest-first only in interactive mode): after a clear that keeps the
  constants, a name equal to a complete stored name still resolves to exactly that entry."""
  import itertools  # pylint: disable=import-outside-toplevel
  names = ['c08k.units.C', 'units.C', 'C']
  for order in itertools.permutations(range(3)):
    case = ['nested_constants_after_clear', list(order)]
    harness.hard_reset()
    res.case(tuple(map(str, case)), True)
    with gin.config.interactive_mode():
      for i in order:
        gin.constant(names[i], 'value of ' + names[i])
    gin.clear_config()
    got = {}
    for n in names:
      try:
        got[n] = gin.query_parameter(n)
      except Exception as e:  # pylint: disable=broad-except
        got[n] = 'raised %s' % type(e).__name__
    want = {n: 'value of ' + n for n in names}
    if got != want:
      res.violation('exact_name_after_clear', '%r: constants defined in that order, then clear_config(): names resolve to %r, '
                    'expected %r' % (case, got, want), case)
      harness.hard_reset()
      return
  res.w('exact_precedence_after_clear')
  harness.hard_reset()


def run(ctx):
  res = core.Result()
  run_method_names(res)
  run_user_macro(res)
  run_reference_spellings(res)
  run_nested_constants_after_clear(res)
  run_a(ctx, res)
  cases = list(b_cases()) + list(hook_cases())
  res.sample({'api_case': cases[len(cases) // 3]})
  res.sample({'hook_case': cases[-20]})
  n = ctx.jobs * 4
  for r in ctx.pmap(_run_b_chunk, [cases[i::n] for i in range(n)]):
    res.merge(r)
  res.traces += len(cases)
  return res


def replay(obj):
  if obj and isinstance(obj[0], str):
    res = core.Result()
    if obj[0] == 'method_names':
      run_method_names(res)
    elif obj[0] == 'user_configurable_named_macro':
      run_user_macro(res)
    elif obj[0] == 'reference_spellings':
      run_reference_spellings(res)
    elif obj[0] == 'nested_constants_after_clear':
      run_nested_constants_after_clear(res)
    elif obj[0] in ('hook', 'const', 'macro_spelling'):
      run_hook_case(obj, res)
    else:
      run_b_case(obj, res)
    return res
  return replay_hist(obj, POOL_T, queries(4))
