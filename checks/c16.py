"""C16 — a failed parse applies exactly the preceding statements; errors say where.

Fault enumeration: base configs (lists of statements from a menu incl. blocks, macros, imports, includes to
depth 2) x every statement position (also inside included files and inside blocks) x fault kind x start state.
Oracle: differential — the state after the failing parse must equal the state after parsing the truncated
text (same files, cut just before the fault), including provenance, scope stack, lock flag, parse-context
depth, recorded imports and the behaviour of a follow-up parse; semantic errors keep their class and carry
one location entry per include level with the line where the offending statement begins.
"""
import io
import itertools
import re
import tokenize

from vf import core
from vf import harness
from vf.harness import gin, cfg

ID = 'C16'
LEVEL = 'fault_enumeration'
RULE = ('every base statement list (len<=N over the menu) x every injection position (top level, inside each '
        'included file, inside a block at each member index) x every fault kind x start state {empty, non-empty, '
        'inside unlock block of a finalized config, inside an active scope}; one evaluation = failing parse vs parse '
        'of the truncated files compared on the whole observation vector. non-trivial = position > 0 or nested.')
ASSUMPTIONS = ['files are served by an in-memory reader with a .name attribute', 'truncated-file parse is the reference '
               'for "exactly the preceding statements"', 'statement menu and fault menu as listed in coverage']
WITNESSES = ['locked_dynamic_registration_located', 'prefix_applied', 'nothing_after_applied', 'fault_in_included_file', 'fault_in_nested_include',
             'fault_in_block_member', 'location_chain_checked', 'syntaxerror_lineno_checked', 'scope_restored',
             'lock_restored', 'followup_parse_same', 'provenance_checked', 'multiline_statement_begin_line', 'dynamic_registration_fault']

MEM = {}


class NamedIO(io.StringIO):
  def __init__(self, text, name):
    super().__init__(text)
    self.name = name


def setup():
  @gin.configurable(module='c16')
  def f(a=None, b=None, c=None, z=None):
    return (a, b, c, z)

  @gin.configurable(module='c16')
  def g(p=None, q=None, r=None):
    return (p, q, r)

  @gin.configurable(module='c16', denylist=['x'])
  def deny(x=None, y=None):
    return (x, y)
  gin.config.register_file_reader(lambda p: NamedIO(MEM[p], p), lambda p: p in MEM)
  import atexit, os, shutil, sys, tempfile  # pylint: disable=import-outside-toplevel,multiple-imports
  d = tempfile.mkdtemp(prefix='c16_')
  with open(os.path.join(d, 'c16mod.py'), 'w') as fh:
    fh.write('def f(a=None, b=None, z=None):\n  return (a, b, z)\n\ndef g(p=None):\n  return p\n')
  with open(os.path.join(d, 'c16badsyn.py'), 'w') as fh:
    fh.write('def (:\n')
  sys.path.insert(0, d)
  atexit.register(lambda: shutil.rmtree(d, ignore_errors=True))
  import c16mod  # pylint: disable=import-outside-toplevel,unused-import


# ----------------------------------------------------------------------------------- menus
MENU = {
    'flat': "c16.f.a = 1",
    'scoped': "s/c16.f.a = 2",
    'macro_def': "m1 = 10",
    'macro_use': "c16.f.b = %m1",
    'import': "import json",
    'block': ('BLOCK', 'c16.g', ["p = 1", "q = [2,\n       3]", "r = 'three'"]),
    'include': ('INCLUDE', 'inc1.gin'),
    'ref': "c16.f.c = @c16.g()",
    'block_commented': ('BLOCK', 'c16.g', ["p = 'bc'", "# interior comment\n\n  q = 'after comment'", "r = 0"]),
    'multiline': "c16.f.c = {\n  'k': 1,\n}",
    # characters str.splitlines() treats as line ends but the config language does not (they sit inside comments)
    'odd_separators': "c16.f.a = 3  # page\x0cbreak \x85 next\n# \u2028 whole-line comment \x1c \x0b end",
}
INC = {
    'inc1.gin': ["c16.f.a = 'i1'", ('INCLUDE', 'inc2.gin'), "c16.g.p = 'i1p'"],
    'inc2.gin': ["from os import path", "c16.f.b = 'i2'", "s/c16.g.q = 'i2q'"],
}
# fault kind -> (statement text, expected exception class (or tuple), kind)
FAULTS = {
    'bad_value': ("c16.f.z = 1 +", SyntaxError, 'syntax'),
    'missing_value': ("c16.f.z =", SyntaxError, 'syntax'),
    'unbalanced': ("c16.f.z = [1, 2", (SyntaxError, tokenize.TokenError), 'syntax'),
    'bad_selector': ("c16..f.z = 1", SyntaxError, 'syntax'),
    'space_in_selector': ("c16.f z = 1", SyntaxError, 'syntax'),
    'no_equals': ("c16.f.z 1", SyntaxError, 'syntax'),
    # a line whose very first token cannot be tokenized (the parser reads one token ahead of each statement)
    'untokenizable_line_after_comment': ("# a comment line\n\n   # another, indented\n\x00c16.f.z = 1", (SyntaxError, tokenize.TokenError, SystemError), 'syntax'),
    'unterminated_string_after_blank': ("\n\n'''never closed", (SyntaxError, tokenize.TokenError), 'syntax'),
    'untokenizable_line': ("\x00c16.f.z = 1", (SyntaxError, tokenize.TokenError, SystemError), 'syntax'),  # SystemError: CPython 3.12 tokenizer, NUL right after a dedent
    'unknown_param': ("c16.f.nope = 1", ValueError, 'semantic'),
    'unknown_param_multiline': ("c16.f.nope = [1,\n  2,\n  3]", ValueError, 'semantic'),
    # the statement BEGINS on the line of its selector / keyword, also when a continuation moves the rest further down
    'unknown_param_continued': ("c16.f.nope \\\n    = 1", ValueError, 'semantic'),
    'unknown_configurable_continued': ("c16.nofn.z \\\n  = \\\n  1", ValueError, 'semantic'),
    'bad_include_continued': ("include \\\n    'missing.gin'", IOError, 'semantic'),
    'bad_import_continued': ("import \\\n    no_such_module_c16", ImportError, 'semantic'),
    'unknown_configurable': ("c16.nofn.z = 1", ValueError, 'semantic'),
    'unknown_reference': ("c16.f.z = @c16.nonexistent()", ValueError, 'semantic'),
    # the offending source line is quoted in the message: whatever characters it contains (str.format metacharacters)
    'unknown_reference_in_dict': ("c16.f.z = {'k': @c16.nonexistent()}", ValueError, 'semantic'),
    'unknown_reference_brace_comment': ("c16.f.z = @c16.nonexistent()  # {0} {x} }{ %s %(y)s", ValueError, 'semantic'),
    'ambiguous_constant_braces': ("c16.f.z = [{}, %AMBIG, {'a': {}}]", ValueError, 'semantic'),
    'denylisted': ("c16.deny.x = 1", ValueError, 'semantic'),
    'bad_include': ("include 'missing.gin'", IOError, 'semantic'),
    'bad_import': ("import no_such_module_c16", ImportError, 'semantic'),
    # the module exists but does not compile: Python's SyntaxError names the module's file, the error must still say
    # which statement of which config file (and which includes) led there
    'import_of_module_with_syntax_error': ("import c16badsyn", SyntaxError, 'semantic'),
    'ambiguous_constant': ("c16.f.z = %AMBIG", ValueError, 'semantic'),
    'unknown_block': ("c16.nofn:\n  z = 1", ValueError, 'semantic'),
}
BLOCK_FAULTS = {
    'm_bad_value': ("z = 1 +", SyntaxError, 'syntax'),
    'm_missing_value': ("z =", SyntaxError, 'syntax'),
    'm_unknown_param': ("nope = 1", ValueError, 'semantic'),
    'm_unknown_reference': ("p = @c16.nonexistent()", ValueError, 'semantic'),
    'm_dotted_name': ("p.q = 1", SyntaxError, 'syntax'),
    # the offending member is preceded (inside the block) by a comment and a blank line: the location named must be
    # the member's own line (offset 2 from where the inserted text starts)
    'm_unknown_param_after_comment': ("# a comment line\n\n  nope = 1", ValueError, 'semantic', 2),
    'm_unknown_reference_after_blank': ("\n  p = @c16.nonexistent()", ValueError, 'semantic', 1),
}
DHEAD = ['from __gin__ import dynamic_registration', 'import c16mod']
DMENU = {
    'dflat': "c16mod.f.a = 1",
    'dscoped': "s/c16mod.f.b = 2",
    'dblock': ('BLOCK', 'c16mod.g', ["p = [1,\n       2]"]),
    'dinclude': ('INCLUDE', 'dinc1.gin'),
    'dref': "c16mod.f.z = @c16mod.g()",
}
DINC = {
    'dinc1.gin': DHEAD + ["c16mod.f.a = 'd1'", ('INCLUDE', 'dinc2.gin'), "c16mod.g.p = 'd1p'"],
    'dinc2.gin': DHEAD + ["c16mod.f.b = 'd2'"],
}
DFAULTS = {
    'd_unknown_attribute': ("c16mod.Nope.x = 1", AttributeError, 'semantic'),
    'd_unknown_symbol': ("nope.fn.x = 1", NameError, 'semantic'),
    'd_unknown_reference': ("c16mod.f.z = @c16mod.Nope()", AttributeError, 'semantic'),
    'd_unknown_ref_symbol': ("c16mod.f.z = [1,\n  @nope.fn]", NameError, 'semantic'),
    'd_unknown_block': ("c16mod.Nope:\n  x = 1", AttributeError, 'semantic'),
    'd_unknown_param': ("c16mod.f.nope = 1", ValueError, 'semantic'),
    'd_bad_value': ("c16mod.f.z = 1 +", SyntaxError, 'syntax'),
    'd_bad_import': ("import no_such_module_c16d", ImportError, 'semantic'),
    'd_reserved_gin': ("import math as gin", ValueError, 'semantic'),
    'd_reserved_gin_from': ("from os import path as gin", ValueError, 'semantic'),
}
STARTS = ['empty', 'nonempty', 'unlocked_block', 'in_scope']


def bound(tier):
  return 'base lists len<=%d over %d menu statements; %d fault kinds + %d block-member fault kinds; %d start states' % (
      2 if tier == 'quick' else 3, len(MENU), len(FAULTS), len(BLOCK_FAULTS), len(STARTS))


# ----------------------------------------------------------------------------------- rendering
def render_stmt(st, block_cut=None, block_fault=None):
  """Returns text of one statement. For blocks: members[:block_cut] (+ faulty member)."""
  if isinstance(st, tuple) and st[0] == 'BLOCK':
    members = list(st[2])
    if block_cut is not None:
      members = members[:block_cut]
      if block_fault is not None:
        members.append(block_fault)
    if not members:
      return None
    return st[1] + ':\n' + ''.join('  ' + m + '\n' for m in members).rstrip('\n')
  if isinstance(st, tuple) and st[0] == 'INCLUDE':
    return "include '%s'" % st[1]
  return st


def build(files, target, idx, fault_text, block_member=None, block_fault=None, truncate=False):
  """files: name -> list of statements ('TOP' is the text handed to parse_config).
  Faulty variant: `fault_text` is inserted as a new statement before position idx of file `target`; or, with
  block_member=k, the block at idx keeps members[:k] followed by the faulty member `block_fault`.
  truncate=True gives the reference files, cut just before the fault (including files keep their include line).
  Returns (name -> text, chain) with chain = [(file, line)] innermost first: the line where the faulty statement
  begins, then the line of each include statement leading to it."""
  def find(name, path):
    if name == target:
      return path
    for i, st in enumerate(files[name]):
      if isinstance(st, tuple) and st[0] == 'INCLUDE':
        r = find(st[1], path + [(name, i)])
        if r is not None:
          return r
    return None
  path = find('TOP', [])
  cut_after = dict(path)
  mem, marks = {}, {}
  for name, sts in files.items():
    texts = []

    def cur_line():
      return 1 + sum(t.count('\n') + 1 for t in texts)
    done = False
    for i, st in enumerate(sts):
      if name == target and i == idx:
        if block_member is None:
          if truncate:
            done = True
            break
          marks['fault'] = cur_line()
          texts.append(fault_text)
        else:
          pre = render_stmt(st, block_member, None)
          if truncate:
            if pre is not None:
              texts.append(pre)
            done = True
            break
          marks['fault'] = cur_line() + (pre.count('\n') + 1 if pre is not None else 1)
          texts.append(render_stmt(st, block_member, block_fault))
          continue
      if isinstance(st, tuple) and st[0] == 'INCLUDE' and name in cut_after and cut_after[name] == i:
        marks[(name, i)] = cur_line()
      texts.append(render_stmt(st))
      if truncate and name in cut_after and cut_after[name] == i:
        done = True
        break
    if not done and name == target and idx == len(sts) and block_member is None and not truncate:
      marks['fault'] = cur_line()
      texts.append(fault_text)
    mem[name] = '\n'.join(texts) + '\n'
  chain = [(target, marks.get('fault'))]
  for name, i in reversed(path):
    chain.append((name, marks.get((name, i))))
  return mem, chain


def observe(followup=True):
  obs = {}
  try:
    obs['config'] = gin.config_str(show_provenance=True)
  except Exception as e:  # pylint: disable=broad-except
    obs['config'] = 'config_str raised %r' % (e,)
  obs['scope'] = gin.current_scope()
  obs['locked'] = gin.config_is_locked()
  obs['contexts'] = len(cfg._PARSE_CONTEXTS)
  obs['imports'] = sorted((i.module, i.is_from, i.alias) for i in cfg._IMPORTS)
  if followup:
    try:
      with gin.unlock_config():
        gin.parse_config("c16.f.z = 'after'\nc16.g.r = %m1")
      try:
        obs['followup'] = gin.config_str(show_provenance=True)
      except Exception as e:  # pylint: disable=broad-except
        obs['followup'] = 'config_str raised %r' % (e,)
    except Exception as e:  # pylint: disable=broad-except
      obs['followup'] = 'raised %s' % type(e).__name__
    # ... and parsing the very same files again (now without the fault) behaves as in a fresh process
    good = {}
    for name, sts in list(INC.items()) + list(DINC.items()):
      good[name] = '\n'.join(render_stmt(x) for x in sts) + '\n'
    saved = dict(MEM)
    MEM.clear()
    MEM.update(good)
    for inc in ('inc1.gin', 'dinc1.gin'):
      try:
        with gin.unlock_config():
          r = gin.parse_config_file(inc)
        obs['refile:' + inc] = (repr(r), sorted((k, sorted(v)) for k, v in cfg._CONFIG.items()))
      except Exception as e:  # pylint: disable=broad-except
        obs['refile:' + inc] = 'raised %r' % (e,)
    MEM.clear()
    MEM.update(saved)
  return obs


def run_parse(mem, start):
  """Resets, establishes the start state, parses mem['TOP']; returns (exception or None, observation)."""
  harness.hard_reset()
  MEM.clear()
  MEM.update({k: v for k, v in mem.items() if k != 'TOP'})
  gin.constant('one.AMBIG', 1)
  gin.constant('two.AMBIG', 2)
  exc = None
  if start == 'nonempty':
    gin.parse_config("c16.f.a = 'pre'\nc16.g.q = 'preq'\nm1 = 'prem'")
  try:
    if start == 'unlocked_block':
      gin.parse_config("c16.f.a = 'pre'")
      gin.finalize()
      with gin.unlock_config():
        gin.parse_config(mem['TOP'])
    elif start == 'in_scope':
      with gin.config_scope('zz'):
        try:
          gin.parse_config(mem['TOP'])
        except Exception as e:  # pylint: disable=broad-except
          exc = e
        inner_scope = gin.current_scope()
      obs = observe()
      obs['inner_scope'] = inner_scope
      return exc, obs
    else:
      gin.parse_config(mem['TOP'])
  except Exception as e:  # pylint: disable=broad-except
    exc = e
  obs = observe()
  return exc, obs


LOC_RE = re.compile(r'In (?:file "([^"]+)",|(bindings string)) line (\d+)')


def check_case(case, res):
  base, target, idx, fkind, member, start = case[:6]
  dynamic = fkind.startswith('d_')
  if dynamic:
    files = {'TOP': DHEAD + [DMENU[k] for k in base]}
    files.update(DINC)
  else:
    files = {'TOP': [MENU[k] for k in base]}
    files.update(INC)
  if member is None:
    ftext, fexc, fk = (DFAULTS if dynamic else FAULTS)[fkind]
    mem_full, chain = build(files, target, idx, ftext)
    mem_ref, _ = build(files, target, idx, ftext, truncate=True)
  else:
    ftext, fexc, fk = BLOCK_FAULTS[fkind][:3]
    mem_full, chain = build(files, target, idx, None, block_member=member, block_fault=ftext)
    if len(BLOCK_FAULTS[fkind]) > 3 and chain[0][1] is not None:
      chain[0] = (chain[0][0], chain[0][1] + BLOCK_FAULTS[fkind][3])
    mem_ref, _ = build(files, target, idx, None, block_member=member, block_fault=ftext, truncate=True)
  nontrivial = idx > (2 if dynamic else 0) or target != 'TOP' or member
  if dynamic:
    res.w('dynamic_registration_fault')
  res.case(tuple(map(repr, case)), bool(nontrivial))
  exc, got = run_parse(mem_full, start)
  rexc, ref = run_parse(mem_ref, start)
  if rexc is not None:
    res.extra['harness_error'] = 'reference (truncated) parse failed for %r: %r\n%s' % (case, rexc, mem_ref)
    return
  art = list(case)
  if exc is None:
    res.violation('fault_not_raised', 'case %r: faulty text parsed without error:\n%s' % (case, mem_full), art)
    return
  res.outcome('%s:%s' % (fk, type(exc).__name__))
  if not isinstance(exc, fexc):
    res.violation('wrong_exception_class:' + fkind, 'case %r: raised %r, expected %s' % (case, exc, fexc), art)
  # ---- state = exactly the prefix
  diff = {k: (got[k], ref[k]) for k in ref if got.get(k) != ref[k]}
  if diff:
    keys = sorted(diff)
    if member is not None and member >= 1 and fk == 'syntax' or (member is not None and member >= 1 and
                                                                  fkind.startswith('m_unknown_reference')):
      sig = 'block_member_fault_drops_earlier_members'
    elif keys == ['imports'] or set(keys) <= {'imports', 'config', 'followup'} and 'imports' in keys and \
        _only_import_lines_differ(diff):
      sig = 'imports_before_fault_not_recorded'
    else:
      sig = 'state_not_prefix:' + keys[0]
    res.violation(sig, 'case %r: after the failed parse the state differs from parsing the truncated text in %s:\n'
                  'got %r\nexpected %r\n--- text:\n%s' % (case, keys, {k: got.get(k) for k in keys},
                                                           {k: ref[k] for k in keys}, mem_full.get(target)), art)
  else:
    res.w('prefix_applied' if nontrivial else 'nothing_after_applied')
    res.w('nothing_after_applied')
    res.w('followup_parse_same')
    if start == 'in_scope':
      res.w('scope_restored')
    if start == 'unlocked_block':
      res.w('lock_restored')
    if target in ('inc1.gin', 'dinc1.gin'):
      res.w('fault_in_included_file')
    if target in ('inc2.gin', 'dinc2.gin'):
      res.w('fault_in_nested_include')
    if member is not None:
      res.w('fault_in_block_member')
  # ---- error location
  if fk == 'semantic' and isinstance(exc, fexc):
    locs = [((m.group(1) or None), int(m.group(3))) for m in LOC_RE.finditer(str(exc))]
    want = [((n if n != 'TOP' else None), l) for n, l in chain]
    # Errors raised while a *value* is being parsed (unknown / ambiguous reference) are located at the reference
    # token, which for a multi-line value lies inside the statement but not on its first line.  The statement names
    # the line where the statement begins; pointing at the token inside the statement is accepted here (DESIGN §6.4).
    if fkind in ('unknown_reference', 'ambiguous_constant', 'd_unknown_reference', 'd_unknown_ref_symbol') and locs \
        and want and locs[0][0] == want[0][0] and want[0][1] <= locs[0][1] <= want[0][1] + ftext.count('\n'):
      locs[0] = want[0]
    if locs != want:
      res.violation('error_location_chain', 'case %r: message names locations %r, expected %r; message: %s' %
                    (case, locs, want, str(exc)[:600]), art)
    else:
      res.w('location_chain_checked')
      if '\n' in ftext:
        res.w('multiline_statement_begin_line')
  elif isinstance(exc, SyntaxError) and not isinstance(exc, tokenize.TokenError):
    fname = target if target != 'TOP' else None
    first = chain[0][1]
    last = first + ftext.count('\n')
    if getattr(exc, 'filename', None) != fname or not (first <= (exc.lineno or -1) <= last + 1):
      res.violation('syntaxerror_location', 'case %r: SyntaxError points at %r:%r, statement is %r lines %d-%d' %
                    (case, getattr(exc, 'filename', None), exc.lineno, fname, first, last), art)
    else:
      res.w('syntaxerror_lineno_checked')


def _only_import_lines_differ(diff):
  for k in ('config', 'followup'):
    if k in diff:
      a, b = diff[k]
      if not isinstance(a, str) or not isinstance(b, str):
        return False
      la = [l for l in a.splitlines() if not l.startswith(('import ', 'from ')) and l.strip()]
      lb = [l for l in b.splitlines() if not l.startswith(('import ', 'from ')) and l.strip()]
      if la != lb:
        return False
  return True


# ----------------------------------------------------------------------------------- provenance (absolute)
def check_provenance(base, res):
  """Successful parse: every '# Set in file:line:' comment equals the model (last statement setting it)."""
  files = {'TOP': [MENU[k] for k in base]}
  files.update(INC)
  harness.hard_reset()
  MEM.clear()
  model = {}   # (scope, selector, param) -> (file, line)

  def walk(name):
    line = 1
    for st in files[name]:
      txt = render_stmt(st)
      if isinstance(st, tuple) and st[0] == 'INCLUDE':
        walk(st[1])
      elif isinstance(st, tuple) and st[0] == 'BLOCK':
        l = line + 1
        for m in st[2]:
          mlines = m.split('\n')                      # a member may be preceded by comment / blank lines
          first = next(i for i, x in enumerate(mlines) if x.strip() and not x.strip().startswith('#'))
          model[('', st[1], mlines[first].strip().split(' = ')[0])] = (name, l + first)
          l += m.count('\n') + 1
      elif ' = ' in txt and not txt.startswith(('import', 'from')):
        key = txt.split(' = ')[0]
        scope, _, rest = key.rpartition('/')
        if '.' in rest:
          sel, _, param = rest.rpartition('.')
          model[(scope, sel, param)] = (name, line)
        else:
          model[('MACRO', key, 'value')] = (name, line)
      line += txt.count('\n') + 1
  for n, sts in INC.items():
    MEM[n] = '\n'.join(render_stmt(s) for s in sts) + '\n'
  walk('TOP')
  gin.parse_config('\n'.join(render_stmt(s) for s in files['TOP']) + '\n')
  text = gin.config_str(show_provenance=True)
  res.case(('prov',) + tuple(base), True)
  lines = text.splitlines()
  found = {}
  for i, l in enumerate(lines):
    m = re.match(r'# Set in (.*):(\d+):$', l)
    if m and i + 1 < len(lines):
      key = lines[i + 1].split(' = ')[0].strip()
      found[key] = (m.group(1), int(m.group(2)))
  want = {}
  for (scope, sel, param), (fname, line) in model.items():
    if scope == 'MACRO':
      k = sel
    else:
      k = (scope + '/' if scope else '') + sel.replace('c16.', '') + '.' + param
    want[k] = (fname if fname != 'TOP' else 'bindings string', line)
  if found != want:
    res.violation('provenance', 'base %r: provenance comments %r, model %r\n%s' % (base, found, want, text),
                  ['prov'] + list(base))
  else:
    res.w('provenance_checked')
  res.outcome('prov')


def gen_cases(tier):
  n = 2 if tier == 'quick' else 3
  keys = list(MENU)
  bases = [()]
  for k in range(1, n + 1):
    bases += list(itertools.product(keys, repeat=k))
  for base in bases:
    yield ('prov', base)
    for si, start in enumerate(STARTS):
      for fkind in FAULTS:
        for idx in range(len(base) + 1):
          yield (list(base), 'TOP', idx, fkind, None, start)
        if 'include' in base and (tier != 'quick' or len(base) <= 1 or si == 0):
          for tgt in ('inc1.gin', 'inc2.gin'):
            for idx in range(len(INC[tgt]) + 1):
              yield (list(base), tgt, idx, fkind, None, start)
      for bi, k in enumerate(base):
        if k in ('block', 'block_commented'):
          for fkind in BLOCK_FAULTS:
            for member in range(0, 4):
              yield (list(base), 'TOP', bi, fkind, member, start)


def dyn_cases(tier):
  keys = list(DMENU)
  bases = [()] + [(k,) for k in keys] + ([] if tier == 'quick' else list(itertools.product(keys, repeat=2)))
  bases += [('dflat', 'dinclude'), ('dinclude', 'dref')]
  for base in bases:
    for start in STARTS:
      for fkind in DFAULTS:
        for idx in range(2, len(base) + 3):
          yield (list(base), 'TOP', idx, fkind, None, start)
        if 'dinclude' in base:
          for tgt in ('dinc1.gin', 'dinc2.gin'):
            for idx in range(2, len(DINC[tgt]) + 1):
              yield (list(base), tgt, idx, fkind, None, start)


# --------------------------------------------------------------- errors while a dynamic-registration parse meets a
# locked configuration: the first use of a not-yet-registered name is itself rejected, and must be located
LOCKED_DYN = {
    'binding': "from __gin__ import dynamic_registration\nimport c16mod\n\n# comment\nc16mod.g.p = 3\n",
    'block': "from __gin__ import dynamic_registration\nimport c16mod\n\n\nc16mod.g:\n  p = 3\n",
    'included': "include 'c16_locked_inner.gin'\n",
}


def check_locked_dyn(name, res):
  desc = ['locked_dyn', name]
  harness.hard_reset()
  MEM.clear()
  MEM['c16_locked_inner.gin'] = LOCKED_DYN['binding']
  res.case(tuple(desc), True)
  gin.parse_config("from __gin__ import dynamic_registration\nimport c16mod\nc16mod.f.a = 1\n")
  gin.finalize()
  try:
    gin.parse_config(LOCKED_DYN[name])
    res.violation('state_not_prefix:config', '%r: a binding on a locked configuration was accepted' % (desc,), desc)
    return
  except RuntimeError as e:
    msg = str(e)
  except Exception as e:  # pylint: disable=broad-except
    res.violation('wrong_exception_class:locked_dyn', '%r: raised %r, expected RuntimeError (locked)' % (desc, e), desc)
    return
  want = ['line 5'] if name != 'included' else ['c16_locked_inner.gin', 'line 5', 'line 1']
  if not all(w in msg for w in want):
    res.violation('error_location_chain', '%r: the error raised while registering on a locked configuration does not name %r:\n%s'
                  % (desc, want, msg), desc)
  else:
    res.w('locked_dynamic_registration_located')


# --------------------------------------------------------------- a locked configuration rejects the first statement that
# would modify it, whatever kind of statement that is; the error names the file and line (and the include chain)
LOCKED_FIRST = {
    'binding': "import json\n\n# comment\nc16.g.p = 3\n",
    'scoped_binding': "\n\n\ns/t/c16.g.p = 3\n",
    'block': "\n\n# c\nc16.g:\n  p = 3\n",
    'macro': "import json\n\n# comment\nlimit16 = 3\nc16.g.p = %limit16\n",
    'scoped_macro': "\n\n\nsome/limit16 = 3\n",
    'macro_long_form': "\n\n\nlimit16/gin.macro.value = 3\n",
    'included_macro': "include 'c16_locked_first_inner.gin'\n",
    'included_twice_macro': "\ninclude 'c16_locked_first_outer.gin'\n",
}


def check_locked_first(name, res):
  desc = ['locked_first', name]
  harness.hard_reset()
  MEM.clear()
  MEM['c16_locked_first_inner.gin'] = LOCKED_FIRST['macro']
  MEM['c16_locked_first_outer.gin'] = "# outer\n\ninclude 'c16_locked_first_inner.gin'\n"
  res.case(tuple(desc), True)
  gin.parse_config("c16.f.a = 1\n")
  gin.finalize()
  try:
    gin.parse_config(LOCKED_FIRST[name])
    res.violation('state_not_prefix:config', '%r: a statement on a locked configuration was accepted' % (desc,), desc)
    return
  except RuntimeError as e:
    msg = str(e)
  except Exception as e:  # pylint: disable=broad-except
    res.violation('wrong_exception_class:locked_first', '%r: raised %r, expected RuntimeError (locked)' % (desc, e), desc)
    return
  want = {'included_macro': ['c16_locked_first_inner.gin', 'line 4', 'line 1'],
          'included_twice_macro': ['c16_locked_first_inner.gin', 'line 4', 'c16_locked_first_outer.gin', 'line 3', 'line 2']
          }.get(name, ['line 5'] if name == 'block' else ['line 4'])
  if not all(w in msg for w in want):
    res.violation('error_location_chain', '%r: the error raised by the first modifying statement on a locked configuration '
                  'does not name %r:\n%s' % (desc, want, msg), desc)
  elif {k: dict(v) for k, v in cfg._CONFIG.items()} != {('', 'c16.f'): {'a': 1}} or not gin.config_is_locked():
    res.violation('state_not_prefix:config', '%r: the rejected parse changed the configuration or its lock' % (desc,), desc)
  else:
    res.w('locked_first_statement_located')


NSH = 64


def shards(tier):
  return list(range(NSH))


def run_shard(i, tier):
  res = core.Result()
  for n, case in enumerate(itertools.chain(gen_cases(tier), dyn_cases(tier))):
    if n % NSH != i:
      continue
    if case[0] == 'prov':
      check_provenance(list(case[1]), res)
    else:
      check_case(case, res)
      if n % 1009 == i:
        res.sample({'case': core.jsonable(case)})
    if 'harness_error' in res.extra:
      break
  for n, name in enumerate(LOCKED_DYN):
    if n % NSH == i:
      check_locked_dyn(name, res)
  for n, name in enumerate(LOCKED_FIRST):
    if (n + 5) % NSH == i:
      check_locked_first(name, res)
  harness.hard_reset()
  return res


def replay(case):
  res = core.Result()
  if case[0] == 'prov':
    check_provenance(case[1:], res)
  elif case[0] == 'locked_dyn':
    check_locked_dyn(case[1], res)
  elif case[0] == 'locked_first':
    check_locked_first(case[1], res)
  else:
    check_case(tuple(case), res)
  harness.hard_reset()
  return res
