"""C11 — only configurable parameters of registered configurables can ever be bound.

E3: configurable shape x {no list, allowlist, denylist} x parameter class {valid, unknown, denylisted, not
allowlisted} x scope x every binding API path, each attempted on a non-empty configuration.
Oracle: accept iff registered and (parameter in signature or **kwargs) and allowed; a rejected binding raises
and leaves config_str(show_provenance), the lock flag and a subsequent probe call unchanged.
"""
import itertools

from vf import core
from vf import harness
from vf.harness import gin, cfg

ID = 'C11'
LEVEL = 'exploration'
RULE = ('full product of (configurable shape x list kind) x parameter name x selector spelling x scope x binding path '
        '(string key, tuple key, list key, ParsedBindingKey, config line, block member, bindings list of the multi-file '
        'entry point, finalize hook); one evaluation = one attempt compared with the acceptance rule + unchanged-state '
        'oracle. non-trivial = the attempt must be rejected or goes through **kwargs.')
ASSUMPTIONS = ['acceptance rule restated from the property', 'exception class on rejection is not prescribed']
WITNESSES = ['rule_follows_registration_changes', 'accepted_and_injected', 'unknown_param_rejected', 'denylisted_rejected', 'not_allowlisted_rejected',
             'unknown_configurable_rejected', 'method_without_class_rejected', 'method_with_class_accepted',
             'varkw_accepts_any_name', 'hook_path_rejected_unlocked', 'rejected_left_config_unchanged', 'dynamic_registered_accepts',
             'dynamic_registered_rejects']

REC = []
TARGETS = {}
PRE = {}


def setup():
  def rec(name):
    def inner(**kw):
      REC.append((name, gin.current_scope_str(), kw))
    return inner

  def mk_fx(nm):
    ns = {'REC': REC, 'gin': gin}
    exec('def %s(a="da", b="db"):\n  REC.append((%r, gin.current_scope_str(), dict(a=a, b=b)))\n' % (nm, nm), ns)  # pylint: disable=exec-used
    f = ns[nm]
    f.__module__ = 'c11'
    return f

  def mk_vk(nm):
    ns = {'REC': REC, 'gin': gin}
    exec('def %s(a="da", **kw):\n  REC.append((%r, gin.current_scope_str(), dict(a=a, **kw)))\n' % (nm, nm), ns)  # pylint: disable=exec-used
    f = ns[nm]
    f.__module__ = 'c11'
    return f

  def mk_cl(nm):
    ns = {'REC': REC, 'gin': gin}
    exec('class %s:\n  def __init__(self, a="da", b="db"):\n    REC.append((%r, gin.current_scope_str(), dict(a=a, b=b)))\n'
         % (nm, nm), ns)  # pylint: disable=exec-used
    c = ns[nm]
    c.__module__ = 'c11'
    return c
  for lk, kw in (('none', {}), ('allow', {'allowlist': ['a']}), ('deny', {'denylist': ['b']})):
    TARGETS['fx_' + lk] = dict(call=gin.configurable(mk_fx('fx_' + lk), **kw), sig=['a', 'b'], varkw=False, lists=kw)
    TARGETS['cl_' + lk] = dict(call=gin.configurable(mk_cl('cl_' + lk), **kw), sig=['a', 'b'], varkw=False, lists=kw)
  for lk, kw in (('none', {}), ('allow', {'allowlist': ['a', 'zz']}), ('deny', {'denylist': ['b']})):
    TARGETS['vk_' + lk] = dict(call=gin.configurable(mk_vk('vk_' + lk), **kw), sig=['a'], varkw=True, lists=kw)
  # constructors whose receiver is not called `self` / `cls` (namedtuple's generated __new__ uses `_cls`)
  ns = {'REC': REC, 'gin': gin}
  exec('class cl_this:\n  def __init__(this, a="da", b="db"):\n'
       '    REC.append(("cl_this", gin.current_scope_str(), dict(a=a, b=b)))\n'
       'class cl_new:\n  def __new__(_cls, a="da", b="db"):\n'
       '    REC.append(("cl_new", gin.current_scope_str(), dict(a=a, b=b)))\n    return object.__new__(_cls)\n', ns)  # pylint: disable=exec-used
  for nm in ('cl_this', 'cl_new'):
    ns[nm].__module__ = 'c11'
    TARGETS[nm] = dict(call=gin.external_configurable(ns[nm], name=nm, module='c11'), sig=['a', 'b'], varkw=False, lists={})
  # a *args catch-all is not a **kwargs catch-all; a class whose own __new__ names the parameters while a cooperative
  # base contributes __init__(self, **kwargs)
  exec('def fx_varargs(a="da", *args):\n  REC.append(("fx_varargs", gin.current_scope_str(), dict(a=a)))\n'
       'class cl_varargs:\n  def __init__(self, a="da", *rest):\n'
       '    REC.append(("cl_varargs", gin.current_scope_str(), dict(a=a)))\n'
       'class CoopBase:\n  def __init__(self, **kwargs):\n    pass\n'
       'class cl_own_new(CoopBase):\n  def __new__(cls, a="da", b="db"):\n'
       '    REC.append(("cl_own_new", gin.current_scope_str(), dict(a=a, b=b)))\n    return object.__new__(cls)\n', ns)  # pylint: disable=exec-used
  for nm in ('fx_varargs', 'cl_varargs', 'cl_own_new'):
    ns[nm].__module__ = 'c11'
  TARGETS['fx_varargs'] = dict(call=gin.configurable(ns['fx_varargs']), sig=['a'], varkw=False, lists={})
  TARGETS['cl_varargs'] = dict(call=gin.external_configurable(ns['cl_varargs'], name='cl_varargs', module='c11'),
                               sig=['a'], varkw=False, lists={})
  TARGETS['cl_own_new'] = dict(call=gin.external_configurable(ns['cl_own_new'], name='cl_own_new', module='c11'),
                               sig=['a', 'b'], varkw=False, lists={})
  # functions already wrapped by an ordinary user decorator (functools.wraps, *args/**kwargs wrapper)
  import functools  # pylint: disable=import-outside-toplevel

  def user_deco(fn):
    @functools.wraps(fn)
    def wrapper(*args, **kwargs):
      return fn(*args, **kwargs)
    return wrapper

  def user_deco2(fn):
    return user_deco(user_deco(fn))
  TARGETS['deco_cfg'] = dict(call=gin.configurable(user_deco(mk_fx('deco_cfg'))), sig=['a', 'b'], varkw=False, lists={})
  TARGETS['deco2_cfg'] = dict(call=gin.configurable(user_deco2(mk_fx('deco2_cfg')), denylist=['b']), sig=['a', 'b'],
                              varkw=False, lists={'denylist': ['b']})
  TARGETS['deco_ext'] = dict(call=gin.external_configurable(user_deco(mk_fx('deco_ext')), name='deco_ext', module='c11'),
                             sig=['a', 'b'], varkw=False, lists={})
  ns = {'REC': REC, 'gin': gin}
  exec('def pre_fn(x=0, y=0):\n  REC.append(("pre_fn", gin.current_scope_str(), dict(x=x, y=y)))\n', ns)  # pylint: disable=exec-used
  ns['pre_fn'].__module__ = 'c11'
  PRE['call'] = gin.configurable(ns['pre_fn'])
  # registered method on a registered class
  ns = {'REC': REC, 'gin': gin}
  exec('class Km:\n  def __init__(self):\n    pass\n'
       '  def meth(self, a="da", b="db"):\n    REC.append(("Km.meth", gin.current_scope_str(), dict(a=a, b=b)))\n', ns)  # pylint: disable=exec-used
  Km = ns['Km']
  Km.__module__ = 'c11'
  Km.meth.__module__ = 'c11'
  Km.meth.__qualname__ = 'Km.meth'
  gin.register(Km.meth, denylist=['b'])
  gin.register(Km)
  TARGETS['Km.meth'] = dict(call=lambda: gin.get_configurable(Km)().meth(), sig=['a', 'b'], varkw=False,
                            lists={'denylist': ['b']})
  # a registered static method of a registered class: its first parameter is an ordinary parameter
  exec('class Ks:\n  def __init__(self):\n    pass\n'
       '  @staticmethod\n  def make(a="da", b="db"):\n    REC.append(("Ks.make", gin.current_scope_str(), dict(a=a, b=b)))\n', ns)  # pylint: disable=exec-used
  Ks = ns['Ks']
  Ks.__module__ = 'c11'
  Ks.make.__module__ = 'c11'
  Ks.make.__qualname__ = 'Ks.make'
  gin.register(Ks.make)
  gin.register(Ks)
  TARGETS['Ks.make'] = dict(call=lambda: gin.get_configurable(Ks)().make(), sig=['a', 'b'], varkw=False, lists={})
  # Gin's own configurables are configurables like any other: `gin.macro` accepts `value` and nothing else
  def macro_call(**kw):
    try:
      v = gin.get_configurable('gin.macro')(**kw)
    except Exception as e:  # pylint: disable=broad-except
      v = 'raised ' + type(e).__name__
    REC.append(('gin.macro', gin.current_scope_str(), {'value': v}))
  TARGETS['gin.macro'] = dict(call=macro_call, sig=['value'], varkw=False, lists={})
  # a module used through dynamic registration (classes partly registered statically with lists)
  import atexit, os, shutil, sys, tempfile  # pylint: disable=import-outside-toplevel,multiple-imports
  d = tempfile.mkdtemp(prefix='c11_')
  with open(os.path.join(d, 'c11dyn.py'), 'w') as fh:
    fh.write('''import gin

@gin.register(denylist=['secret'])
class Widget:
  def __init__(self, colour='red', secret='s3'):
    self.colour, self.secret = colour, secret
  def render(self, size=1):
    return size

@gin.register(allowlist=['colour'])
class Gadget:
  def __init__(self, colour='red', hidden='h'):
    self.colour, self.hidden = colour, hidden
  def draw(self, w=1):
    return w

class Plain:
  def __init__(self, a=1):
    self.a = a
  def meth(self, b=2):
    return b

@gin.register('Vault', module='short', denylist=['secret'])
class Safe:
  def __init__(self, colour='red', secret='s3'):
    self.colour, self.secret = colour, secret
  def open(self, force=False):
    return force

@gin.register('Locker', allowlist=['colour'])
class Box:
  def __init__(self, colour='red', hidden='h'):
    self.colour, self.hidden = colour, hidden
  def open(self, force=False):
    return force
''')
  sys.path.insert(0, d)
  atexit.register(lambda: shutil.rmtree(d, ignore_errors=True))
  import c11dyn  # pylint: disable=import-outside-toplevel,unused-import


PARAMS = ['a', 'b', 'nope', 'zz', '_private', 'A', 'self', 'this', '_cls', 'args', 'rest', 'value']
SCOPES = ['', 's']
PATHS = ['str', 'tuple', 'list', 'pbk', 'text', 'block', 'files_and_bindings', 'hook', 'hook_tuple', 'tuple4',
         'list4', 'hook_tuple4', 'hook_after_valid_key']


def bound(tier):
  return '%d targets (+unknown names) x %d parameter names x %d scopes x %d binding paths x selector spellings' % (
      len(TARGETS), len(PARAMS), len(SCOPES), len(PATHS))


def spellings(tname):
  if tname == 'Km.meth':
    return ['c11.Km.meth', 'Km.meth', 'meth', 'c11.meth']
  if tname == 'gin.macro':
    return ['gin.macro', 'macro']
  return ['c11.' + tname, tname]


def accepts(tname, spelling, param):
  if tname is None:
    return False, 'unknown_configurable'
  t = TARGETS[tname]
  if tname == 'Km.meth' and spelling in ('meth', 'c11.meth'):
    return False, 'method_without_class' if spelling == 'meth' else 'unknown_configurable'
  if param not in t['sig'] and not t['varkw']:
    return False, 'unknown_param'
  if t['lists'].get('allowlist') and param not in t['lists']['allowlist']:
    return False, 'not_allowlisted'
  if t['lists'].get('denylist') and param in t['lists']['denylist']:
    return False, 'denylisted'
  return True, 'ok'


def four(scope, sel, param):
  """A plain 4-sequence spelled like the fields of a parsed key (scope, given selector, complete selector, parameter);
  whether a *valid* one is accepted is not prescribed, an invalid one must be rejected like any other key."""
  try:
    complete = cfg._REGISTRY.get_match(sel).selector
  except Exception:  # pylint: disable=broad-except
    complete = sel
  return (scope, sel, complete or sel, param)


def attempt(path, scope, sel, param, value):
  key = (scope + '/' if scope else '') + sel + '.' + param
  if path in ('tuple4', 'list4'):
    k4 = four(scope, sel, param)
    gin.bind_parameter(k4 if path == 'tuple4' else list(k4), value)
    return
  if path == 'hook_tuple4':
    k4 = four(scope, sel, param)
    gin.config.register_finalize_hook(lambda config: {k4: value})
    gin.finalize()
    return
  if path == 'str':
    gin.bind_parameter(key, value)
  elif path == 'tuple':
    gin.bind_parameter((scope, sel, param), value)
  elif path == 'list':
    gin.bind_parameter([scope, sel, param], value)
  elif path == 'pbk':
    gin.bind_parameter(cfg.ParsedBindingKey.parse(key), value)
  elif path == 'text':
    gin.parse_config('%s = %r' % (key, value))
  elif path == 'block':
    gin.parse_config('%s%s:\n  %s = %r\n' % (scope + '/' if scope else '', sel, param, value))
  elif path == 'files_and_bindings':
    gin.parse_config_files_and_bindings(None, ['%s = %r' % (key, value)], finalize_config=False)
  elif path == 'hook_after_valid_key':
    # one hook returns a valid binding first and the key under test second: a rejection must leave nothing behind
    gin.config.register_finalize_hook(lambda config: dict([('c11.pre_fn.y', 'SET_BY_HOOK'), (key, value)]))
    gin.finalize()
  elif path in ('hook', 'hook_tuple'):
    k = key if path == 'hook' else (scope, sel, param)
    gin.config.register_finalize_hook(lambda config: {k: value})
    gin.finalize()


def safe_config_str():
  try:
    return gin.config_str()
  except Exception as e:  # pylint: disable=broad-except
    return '<config_str raised %r>' % (e,)


def observe(tname):
  obs = {'config': gin.config_str(show_provenance=True), 'locked': gin.config_is_locked()}
  del REC[:]
  for scope in SCOPES:
    with gin.config_scope(scope or None):
      for tn in ([tname] if tname else []) + ['pre_fn']:
        (TARGETS[tn]['call'] if tn != 'pre_fn' else PRE['call'])()
  obs['calls'] = list(REC)
  return obs


def run_case(case, res):
  tname, spelling, param, scope, path = case
  if tname == 'Km.meth' and param == 'self':
    return   # not prescribed: the configurable `Km.meth` is the plain function, whose signature does name `self`
  harness.hard_reset()
  gin.parse_config("c11.pre_fn.x = 'pre'\ns/c11.pre_fn.x = 'pres'\nc11.pre_fn.y = [1, 2]")
  ok, why = accepts(tname, spelling, param)
  res.case(tuple(case), (not ok) or (tname or '').startswith('vk'))
  # History: a call that named this very parameter with gin.REQUIRED has already failed (nothing is bound yet).
  if tname is not None:
    try:
      TARGETS[tname]['call'](**{param: gin.REQUIRED})
    except Exception:  # pylint: disable=broad-except
      pass
  before = observe(tname)
  val = 'VAL'
  try:
    attempt(path, scope, spelling, param, val)
    out = 'accepted'
  except Exception as e:  # pylint: disable=broad-except
    out = 'rejected:' + type(e).__name__
  res.outcome('%s:%s' % (why, out.split(':')[0]))
  if ok and path.endswith('4') and out != 'accepted':
    res.w('four_sequence_key_rejected')
    return
  if ok:
    if out != 'accepted':
      res.violation('valid_binding_rejected', 'case %r: a valid binding was %s' % (case, out), case)
      return
    if path.startswith('hook'):
      if not gin.config_is_locked():
        res.violation('hook_accept_not_locked', 'case %r: finalize succeeded but config unlocked' % (case,), case)
    after = observe(tname)
    hits = [r for r in after['calls'] if r[0] == tname and r[2].get(param) == val]
    want_scopes = ['s'] if scope == 's' else ['', 's']
    if sorted(r[1] for r in hits) != want_scopes:
      res.violation('accepted_not_injected', 'case %r: accepted binding injected under scopes %r, expected %r; calls %r'
                    % (case, sorted(r[1] for r in hits), want_scopes, after['calls']), case)
    else:
      res.w('accepted_and_injected')
      if tname == 'Km.meth':
        res.w('method_with_class_accepted')
      if TARGETS[tname]['varkw'] and param not in TARGETS[tname]['sig']:
        res.w('varkw_accepts_any_name')
    return
  if out == 'accepted':
    res.violation('invalid_binding_accepted:' + why, 'case %r: binding that must be rejected (%s) was accepted; config:\n%s'
                  % (case, why, safe_config_str()), case)
    return
  after = observe(tname)
  if after != before:
    diff = [k for k in before if before[k] != after[k]]
    res.violation('rejected_binding_changed_state', 'case %r: rejected (%s) but %s changed: %r -> %r' %
                  (case, out, diff, {k: before[k] for k in diff}, {k: after[k] for k in diff}), case)
    return
  res.w('rejected_left_config_unchanged')
  res.w({'unknown_param': 'unknown_param_rejected', 'denylisted': 'denylisted_rejected',
         'not_allowlisted': 'not_allowlisted_rejected', 'unknown_configurable': 'unknown_configurable_rejected',
         'method_without_class': 'method_without_class_rejected'}[why])
  if path.startswith('hook'):
    res.w('hook_path_rejected_unlocked')


DYN_HEAD = 'from __gin__ import dynamic_registration\nimport c11dyn\n'
DYN = {
    # first parse (dynamic registration) -> [(spelling, param, must be accepted?, why)]
    'plain_method': ('c11dyn.Plain.meth.b = 5', [
        ('meth', 'b', False, 'method_without_class'), ('Plain.meth', 'b', True, 'ok'), ('c11dyn.Plain.meth', 'b', True, 'ok'),
        ('Plain.meth', 'nope', False, 'unknown_param'), ('Plain', 'a', True, 'ok'), ('Plain', 'b', False, 'unknown_param')]),
    'denylisted_class_reregistered': ('c11dyn.Widget.render.size = 3', [
        ('Widget', 'secret', False, 'denylisted'), ('c11dyn.Widget', 'secret', False, 'denylisted'),
        ('Widget', 'colour', True, 'ok'), ('render', 'size', False, 'method_without_class'),
        ('Widget.render', 'size', True, 'ok')]),
    'allowlisted_class_reregistered': ('c11dyn.Gadget.draw.w = 2', [
        ('Gadget', 'hidden', False, 'not_allowlisted'), ('Gadget', 'colour', True, 'ok'),
        ('draw', 'w', False, 'method_without_class'), ('c11dyn.Gadget.draw', 'w', True, 'ok')]),
    'custom_named_denylisted_reregistered': ('c11dyn.Safe.open.force = True', [
        ('Vault', 'secret', False, 'denylisted'), ('short.Vault', 'secret', False, 'denylisted'),
        ('c11dyn.Safe', 'secret', False, 'denylisted'), ('Safe', 'secret', False, 'denylisted'),
        # (under which registry name a class that was ALSO registered statically is addressable after the dynamic parse
        #  is not prescribed: valid bindings are tried under the static name, invalid ones under every name)
        ('short.Vault', 'colour', True, 'ok'), ('Vault', 'colour', True, 'ok'), ('c11dyn.Safe', 'nope', False, 'unknown_param'),
        ('Vault', 'nope', False, 'unknown_param'), ('c11dyn.Safe.open', 'nope', False, 'unknown_param')]),
    'custom_named_allowlisted_reregistered': ('c11dyn.Box.open.force = True', [
        ('Locker', 'hidden', False, 'not_allowlisted'), ('c11dyn.Box', 'hidden', False, 'not_allowlisted'),
        ('Box', 'hidden', False, 'not_allowlisted'), ('Locker', 'colour', True, 'ok')]),
    'class_reference_reregistered': ('c11dyn.Plain.a = @c11dyn.Widget\nc11dyn.Widget.render.size = 1', [
        ('Widget', 'secret', False, 'denylisted'), ('Widget', 'colour', True, 'ok')]),
}


def dyn_cases():
  for name, (text, attempts) in DYN.items():
    for i in range(len(attempts)):
      for scope in SCOPES:
        for path in PATHS:
          yield ['dyn', name, i, scope, path]


def run_dyn_case(case, res):
  _, name, i, scope, path = case
  text, attempts = DYN[name]
  spelling, param, ok, why = attempts[i]
  harness.hard_reset()
  gin.parse_config("c11.pre_fn.x = 'pre'\n")
  gin.parse_config(DYN_HEAD + text + '\n')
  res.case(tuple(case), True)
  # (config_str is not usable here: it would try to import the probes' synthetic module 'c11'; the canonical
  #  internal state is compared instead)
  before = (harness.internal_state(), gin.config_is_locked())
  try:
    attempt(path, scope, spelling, param, 'VAL')
    out = 'accepted'
  except Exception as e:  # pylint: disable=broad-except
    out = 'rejected:' + type(e).__name__
  res.outcome('dyn:%s:%s' % (why, out.split(':')[0]))
  if ok and path.endswith('4') and out != 'accepted':
    return
  if ok:
    if out != 'accepted':
      res.violation('valid_binding_rejected', 'case %r: %s.%s after dynamic registration was %s' %
                    (case, spelling, param, out), case)
    else:
      res.w('dynamic_registered_accepts')
    return
  if out == 'accepted':
    res.violation('invalid_binding_accepted:' + why, 'case %r: after the dynamic-registration parse %r, binding %s.%s '
                  '(%s) was accepted' % (case, text, spelling, param, why), case)
    return
  if path.startswith('hook'):
    cfg._FINALIZE_HOOKS.pop()   # the hook was installed by this harness, not by the rejected binding
  if (harness.internal_state(), gin.config_is_locked()) != before:
    res.violation('rejected_binding_changed_state', 'case %r: rejected (%s) but the configuration changed' % (case, out), case)
    return
  res.w('dynamic_registered_rejects')


# ------------------------------------------------------------------------------------ registration changes between
# two uses of the same key: the rule is evaluated against the registry as it is when the binding is made
SEQ_KINDS = ['method_then_class', 'interactive_tighter_denylist', 'interactive_tighter_allowlist',
             'same_object_tighter_denylist', 'same_object_tighter_allowlist']


def run_seq_case(case, res):
  _, kind, scope, path = case
  harness.hard_reset()
  res.case(tuple(case), True)
  ns = {'REC': REC, 'gin': gin}
  if kind == 'method_then_class':
    exec('class Kq:\n  def __init__(self):\n    pass\n'  # pylint: disable=exec-used
         '  def meth2(self, a="da", b="db"):\n    return (a, b)\n', ns)
    Kq = ns['Kq']
    Kq.__module__ = 'c11'
    Kq.meth2.__module__ = 'c11'
    Kq.meth2.__qualname__ = 'Kq.meth2'
    gin.register(Kq.meth2)
    first, sel_before, sel_after, why = ('meth2', 'a'), 'meth2', 'meth2', 'method_without_class'
    change = lambda: gin.register(Kq)  # noqa: E731
    still_ok = ('Kq.meth2', 'a')
  else:
    lists = {'denylist': ['b']} if kind.endswith('tighter_denylist') else {'allowlist': ['a']}
    why = 'denylisted' if 'denylist' in lists else 'not_allowlisted'
    exec('def redef(a="da", b="db"):\n  return (a, b)\n', ns)  # pylint: disable=exec-used
    ns['redef'].__module__ = 'c11'
    gin.external_configurable(ns['redef'], name='redef', module='c11')
    first, sel_after = ('redef', 'b'), 'redef'
    still_ok = ('redef', 'a')

    def change():
      if kind.startswith('same_object'):
        # the very same function registered again under the same name, now with a list
        gin.external_configurable(ns['redef'], name='redef', module='c11', **lists)
        return
      exec('def redef(a="da2", b="db2"):\n  return (a, b)\n', ns)  # pylint: disable=exec-used
      ns['redef'].__module__ = 'c11'
      with gin.config.interactive_mode():
        gin.external_configurable(ns['redef'], name='redef', module='c11', **lists)
  try:
    attempt(path, scope, first[0], first[1], 'V1')       # accepted: valid at this point
    if path.startswith('hook'):
      cfg._FINALIZE_HOOKS.pop()
      with gin.unlock_config():
        pass
      gin.clear_config()
      gin.parse_config("c11.pre_fn.x = 'pre'\n")
    change()
  except Exception as e:  # pylint: disable=broad-except
    res.violation('valid_binding_rejected', 'case %r: set-up (binding while still valid, then the registration '
                  'change) raised %r' % (case, e), case)
    return
  try:
    attempt(path, scope, sel_after, first[1], 'V2')
    out = 'accepted'
  except Exception as e:  # pylint: disable=broad-except
    out = 'rejected:' + type(e).__name__
  res.outcome('seq:%s:%s' % (why, out.split(':')[0]))
  if out == 'accepted':
    res.violation('invalid_binding_accepted:' + why, 'case %r: %s.%s was valid and accepted before the registration '
                  'changed; afterwards it must be rejected (%s) but was accepted again' % (case, sel_after, first[1], why), case)
    return
  if path.startswith('hook'):
    cfg._FINALIZE_HOOKS.pop()
  try:
    attempt(path, scope, still_ok[0], still_ok[1], 'V3')
  except Exception as e:  # pylint: disable=broad-except
    res.violation('valid_binding_rejected', 'case %r: %s.%s after the registration change raised %r' %
                  (case, still_ok[0], still_ok[1], e), case)
    return
  res.w('rule_follows_registration_changes')


def run_twin_case(case, res):
  """Two registered classes of one module, each with a registered method of the same name, one of them denylisting
  `b`: a parameter bound on one class's method is never injected into the other's."""
  _, order, scope, path = case
  harness.hard_reset()
  res.case(tuple(case), True)
  ns = {'REC': REC, 'gin': gin}
  exec('class Reader:\n  def __init__(self):\n    pass\n'  # pylint: disable=exec-used
       '  def open(self, a="da", b="db"):\n    REC.append(("Reader.open", gin.current_scope_str(), dict(a=a, b=b)))\n'
       'class Writer:\n  def __init__(self):\n    pass\n'
       '  def open(self, a="da", b="db", mode="dm"):\n    REC.append(("Writer.open", gin.current_scope_str(), dict(a=a, b=b, mode=mode)))\n', ns)
  R, W = ns['Reader'], ns['Writer']
  for c in (R, W):
    c.__module__ = 'c11tw'
    c.open.__module__ = 'c11tw'
    c.open.__qualname__ = c.__name__ + '.open'
  for c in ((R, W) if order == 'reader_first' else (W, R)):
    gin.register(c.open, denylist=['b'] if c is R else None)     # (the method, then its class: the class renames it)
    gin.register(c)
  try:
    attempt(path, scope, 'c11tw.Writer.open', 'b', 'WB')
    attempt(path if not path.startswith('hook') else 'str', scope, 'c11tw.Writer.open', 'mode', 'WM') if not gin.config_is_locked() else None
  except Exception as e:  # pylint: disable=broad-except
    if path.endswith('4'):
      return
    res.violation('valid_binding_rejected', 'case %r: binding Writer.open.b raised %r' % (case, e), case)
    return
  try:
    attempt(path if not path.startswith('hook') else 'str', scope, 'c11tw.Reader.open', 'b', 'RB')
    res.violation('invalid_binding_accepted:denylisted', 'case %r: Reader.open.b is denylisted but was accepted' % (case,), case)
    return
  except Exception:  # pylint: disable=broad-except
    pass
  del REC[:]
  with gin.config_scope(scope or None):
    gin.get_configurable(R)().open()
    gin.get_configurable(W)().open()
  got = {r[0]: r[2] for r in REC}
  if got.get('Reader.open') != {'a': 'da', 'b': 'db'} or got.get('Writer.open', {}).get('b') != 'WB':
    res.violation('non_configurable_parameter_injected', 'case %r: same-named methods of two classes: the calls received %r' %
                  (case, got), case)
  else:
    res.w('same_named_methods_keep_their_own_bindings')


def gen(tier):
  for order, scope, path in itertools.product(('reader_first', 'writer_first'), SCOPES, ['str', 'tuple', 'text', 'block', 'hook']):
    yield ['twin', order, scope, path]
  for kind, scope, path in itertools.product(SEQ_KINDS, SCOPES, PATHS):
    if not path.endswith('4'):
      yield ['seq', kind, scope, path]
  yield from dyn_cases()
  for tname in list(TARGETS) + [None]:
    sps = spellings(tname) if tname else ['c11.nosuch', 'nosuch', 'c11.fx_none.a']
    for sp, param, scope, path in itertools.product(sps, PARAMS, SCOPES, PATHS):
      yield [tname, sp, param, scope, path]


NSH = 32


def shards(tier):
  return list(range(NSH))


def run_shard(i, tier):
  res = core.Result()
  for n, c in enumerate(gen(tier)):
    if n % NSH != i:
      continue
    {'dyn': run_dyn_case, 'seq': run_seq_case, 'twin': run_twin_case}.get(c[0], run_case)(c, res)
    if n % 701 == i:
      res.sample({'case': c})
  harness.hard_reset()
  return res


def replay(case):
  res = core.Result()
  {'dyn': run_dyn_case, 'seq': run_seq_case, 'twin': run_twin_case}.get(case[0], run_case)(case, res)
  harness.hard_reset()
  return res
