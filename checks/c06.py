"""C06 — the config string round-trips, is canonical and always parses.

E3: configurations = subsets of a binding pool (distinct targets) over scoped / module-qualified / case-colliding /
method / macro targets and a value pool (numbers, long and quoted strings, bytes, wide nested containers, empty
containers, references, macros, constants, non-literal objects) x every permutation of the binding order x
max_line_length x continuation_indent x {bind_parameter, parse_config}; plus dynamic registration over a generated
package.  Oracle: parse(config_str) on a reset gin restores every literally representable binding (equal, same
type), omits the others, keeps imports; config_str again is identical; the text is permutation-invariant, sections
ordered by name with sorted parameters; markdown keeps every binding line verbatim.
"""
import io
import itertools
import math
import os
import re
import shutil
import sys
import tempfile

from vf import core
from vf import harness
from vf.harness import gin, cfg

ID = 'C06'
LEVEL = 'exploration'
RULE = ('configurations = subsets (size<=k, distinct targets) of the binding pool; per configuration: every permutation '
        'of the binding order at the default width, and every (max_line_length, continuation_indent) pair on the '
        'canonical order; each is one round trip (config_str -> reset -> parse -> compare -> config_str). dynamic: import '
        'form x structure menu. non-trivial = configuration has >=2 bindings or a non-default width.')
ASSUMPTIONS = ['literally representable = value of the C02 grammar (finite floats, no sets, no arbitrary objects) plus '
               'references / macros / constants', 'a section whose bindings are all non-literal is printed as "# None." '
               'and is not expected to reappear after the round trip']
WITNESSES = ['late_same_named_registration', 'same_named_methods_of_same_named_classes', 'roundtrip_equal_value_and_type', 'nonliteral_omitted', 'permutation_invariant', 'second_text_identical',
             'wrapped_value_roundtrip', 'markdown_verbatim', 'sections_sorted', 'imports_kept', 'case_colliding_names',
             'module_disambiguation', 'method_target', 'macro_target', 'dynamic_roundtrip', 'narrow_width']

CONST = ('the', 'constant')
SCRATCH = [None]
MEM = {}


def setup():
  @gin.configurable(module='c06')
  def f(x=None, y=None, z=None):
    return (x, y, z)

  @gin.configurable(module='c06')
  def g(t=None):
    return t

  @gin.configurable(module='c06')
  def cased(x=None, X=None, t=None, T=None, Ab=None, aB=None):  # pylint: disable=invalid-name
    return (x, X, t, T)

  @gin.configurable('dup', module='pkg.mod')
  def dup1(x=None):
    return x

  @gin.configurable('dup', module='other.mod')
  def dup2(x=None):
    return x

  @gin.configurable('Fn', module='pkg')
  def fn_upper(x=None):
    return x

  @gin.configurable('fn', module='pkg')
  def fn_lower(x=None):
    return x

  class K:
    def __init__(self, w=None):
      self.w = w

    def meth(self, v=None):
      return v
  K.__module__ = 'c06'
  K.meth.__module__ = 'c06'
  K.meth.__qualname__ = 'K.meth'
  gin.register(K.meth)
  gin.register(K)
  # two classes with the same name in different modules, each with a registered method of the same name
  for modname in ('east.jobs', 'west.jobs'):
    ns = {}
    exec('class Worker:\n  def __init__(self, n=None):\n    self.n = n\n'  # pylint: disable=exec-used
         '  def run(self, speed=None):\n    return speed\n', ns)
    W = ns['Worker']
    W.__module__ = modname
    W.run.__module__ = modname
    gin.register(W.run)
    gin.register(W)
  d = tempfile.mkdtemp(prefix='c06_')
  SCRATCH[0] = d
  os.makedirs(os.path.join(d, 'c06pkg', 'sub'))
  open(os.path.join(d, 'c06pkg', '__init__.py'), 'w').close()
  open(os.path.join(d, 'c06pkg', 'sub', '__init__.py'), 'w').close()
  with open(os.path.join(d, 'c06pkg', 'sub', 'mod.py'), 'w') as fh:
    fh.write("def fn(a=None, b=None):\n  return (a, b)\n\nclass Cls:\n  def __init__(self, x=None):\n    self.x = x\n"
             "  def meth(self, y=None):\n    return y\n")
  with open(os.path.join(d, 'c06pkg', 'other.py'), 'w') as fh:
    fh.write("def fn(a=None):\n  return a\n\ndef Zed(a=None):\n  return a\n")
  os.makedirs(os.path.join(d, 'Zc06Upper'))
  open(os.path.join(d, 'Zc06Upper', '__init__.py'), 'w').close()
  with open(os.path.join(d, 'Zc06Upper', 'Mod.py'), 'w') as fh:
    fh.write("def fn(a=None, b=None):\n  return (a, b)\n")
  # three library modules with the same last component, each registering its function by decorator
  for pk, fn in (('c06qa', 'fa'), ('c06qb', 'fb'), ('c06qc', 'fc')):
    os.makedirs(os.path.join(d, pk))
    open(os.path.join(d, pk, '__init__.py'), 'w').close()
    with open(os.path.join(d, pk, 'util.py'), 'w') as fh:
      fh.write("import gin\n\n@gin.configurable\ndef %s(x=None):\n  return x\n\n\nclass Blocks:\n  @gin.configurable\n"
               "  class Residual_%s:\n    def __init__(self, channels=None):\n      self.channels = channels\n" % (fn, fn))
  sys.path.insert(0, d)
  import atexit
  atexit.register(lambda: shutil.rmtree(d, ignore_errors=True))
  gin.config.register_file_reader(lambda p: io.StringIO(MEM[p]), lambda p: p in MEM)
  import c06pkg.sub.mod  # pylint: disable=import-outside-toplevel,unused-import
  import c06pkg.other  # pylint: disable=import-outside-toplevel,unused-import
  import c06qa.util, c06qb.util, c06qc.util  # pylint: disable=import-outside-toplevel,unused-import,multiple-imports


class Obj:
  def __repr__(self):
    return '<Obj>'


OBJ = Obj()
LAM = lambda: 0  # noqa: E731
import enum  # noqa: E402


class OddRepr:
  """A non-literal object whose repr merely LOOKS like the beginning of config syntax."""

  def __init__(self, text):
    self.text = text

  def __repr__(self):
    return self.text


class Precision(enum.IntEnum):
  HALF = 16


class Mode(str, enum.Enum):
  FAST = 'fast'


class Flag(enum.IntFlag):
  A = 1
  B = 2


class MyInt(int):
  def __repr__(self):
    return '<MyInt %d>' % int(self)


class MyStr(str):
  def __repr__(self):
    return '<MyStr %s>' % str(self)


class MyBytes(bytes):
  def __repr__(self):
    return '<MyBytes>'


class MyFloat(float):
  def __repr__(self):
    return '<MyFloat>'
# value kind -> (python value or ('TEXT', gin text), literal?)
VALUES = {
    'int': (7, True), 'negint': (-12, True), 'float': (1.5, True), 'bigfloat': (1e100, True), 'negzero': (-0.0, True),
    'bool': (True, True), 'none': (None, True), 'imag': (2j, True), 'zero': (0, True), 'false': (False, True),
    'empty_str': ('', True), 'empty_bytes': (b'', True), 'zero_float': (0.0, True),
    'str_short': ('abc', True), 'str_long_spaces': ('a long string with spaces ' * 6, True),
    'str_long_nospace': ('x' * 120, True), 'str_quotes': ('it\'s a "quoted"\nsecond line\ttab \\ backslash', True),
    'str_hash': ('# not a comment', True), 'bytes': (b'by\x00tes\xff', True), 'unicode': ('h\xe9✓', True),
    'nested_wide': ({'key_%d' % i: [i, (i, str(i) * 7), {'deep': [None, True]}] for i in range(5)}, True),
    'list_long': (list(range(40)), True), 'empty_list': ([], True), 'empty_dict': ({}, True), 'empty_tuple': ((), True),
    'one_tuple': ((1,), True), 'dict_mixed_keys': ({1: 'a', 'b': 2, None: 3, (1, 2): 4}, True),
    'ref': (('TEXT', '@c06.g'), True), 'ref_eval_scoped': (('TEXT', '@s/t/c06.g()'), True), 'macro': (('TEXT', '%mac'), True),
    'const': (('TEXT', '%c06.CONST'), True), 'list_with_refs': (('TEXT', "[1, @c06.g(), %mac, {'k': @c06.g}]"), True),
    'obj': (OBJ, False), 'lambda': (LAM, False), 'set': ({1, 2}, False), 'inf': (float('inf'), False),
    'nan': (float('nan'), False), 'list_with_obj': ([1, OBJ], False), 'complex': ((1 + 2j), False),
    'dict_with_inf': ({'k': float('inf')}, False),
    # scalars that are instances of int / str / bytes / float but whose repr is not a literal
    'intenum': (Precision.HALF, False), 'strenum': (Mode.FAST, False), 'intflag': (Flag.A | Flag.B, False),
    'int_subclass': (MyInt(5), False), 'str_subclass': (MyStr('s'), False), 'bytes_subclass': (MyBytes(b'b'), False),
    'float_subclass': (MyFloat(1.5), False), 'list_with_enum': ([1, Precision.HALF], False),
    'plain_enum': (enum.Enum('E', 'X').X, False),
    # reprs that do not tokenize / name nothing known / cannot be computed: no literal form, so they are omitted
    'repr_unknown_reference': (OddRepr('@c06_no_such_thing()'), False), 'repr_unknown_ref_uneval': (OddRepr('@c06nothere'), False),
    'repr_unbalanced': (OddRepr('(1, 2'), False), 'repr_open_string': (OddRepr('"""abc'), False),
    'repr_open_call': (OddRepr('@c06.g('), False), 'repr_unhashable_key': (OddRepr('{[1]: 2}'), False),
    'list_with_odd_repr': ([1, OddRepr("[1, '")], False), 'huge_int': (10 ** 5000, False),
}
T0 = ('', 'c06.f', 'x')
TARGETS = [T0, ('a', 'c06.f', 'x'), ('a/b', 'c06.f', 'y'), ('', 'pkg.mod.dup', 'x'), ('', 'other.mod.dup', 'x'),
           ('', 'pkg.Fn', 'x'), ('', 'pkg.fn', 'x'), ('s', 'pkg.Fn', 'x'), ('', 'c06.K.meth', 'v'), ('', 'c06.g', 't'),
           ('mac', 'gin.macro', 'value'), ('a/b', 'gin.macro', 'value'), ('', 'c06.K', 'w'),
           ('', 'c06.cased', 'x'), ('', 'c06.cased', 'X'), ('', 'c06.cased', 'T'), ('', 'c06.cased', 't'),
           ('a', 'c06.cased', 'aB'), ('a', 'c06.cased', 'Ab')]
OTHER_KINDS = ['int', 'str_long_spaces', 'obj', 'nested_wide', 'intenum']
SAME_NAMED_METHODS = [('', 'east.jobs.Worker.run', 'speed'), ('', 'west.jobs.Worker.run', 'speed'),
                      ('', 'west.jobs.Worker', 'n')]
# a method bound under several scopes; macros / parameters bound to falsy literals
EXTRA = [(('s', 'c06.K.meth', 'v'), 'int'), (('a/b', 'c06.K.meth', 'v'), 'str_short'), (('zz', 'c06.K.meth', 'v'), 'obj'),
         (('mac', 'gin.macro', 'value'), 'none'), (('a/b', 'gin.macro', 'value'), 'false'), (('mac0', 'gin.macro', 'value'), 'zero'),
         (('', 'c06.g', 't'), 'none'), (('me', 'gin.macro', 'value'), 'empty_str'),
         # macros named like the contextual keywords of the statement grammar
         (('include', 'gin.macro', 'value'), 'list_long'), (('import', 'gin.macro', 'value'), 'str_short'),
         (('from', 'gin.macro', 'value'), 'int')]
POOL = ([(T0, k) for k in VALUES] + [(t, k) for t in TARGETS[1:] for k in OTHER_KINDS] +
        [(t, k) for t in SAME_NAMED_METHODS for k in ('int', 'obj')] + EXTRA)
WIDTHS = lambda ci: [ci + 1, ci + 2, 10, 20, 40, 80, 200]  # noqa: E731
INDENTS = [0, 2, 4, 8]


def bound(tier):
  return ('pool of %d bindings (%d targets, %d value kinds); all subsets of size<=2, triples and (every %s) quadruples over a '
          'selection of %d bindings on colliding / related targets; all permutations; %d width x indent pairs' % (
              len(POOL), len(TARGETS), len(VALUES), '7th' if tier == 'quick' else '3rd', 19 if tier == 'quick' else 34,
              7 * len(INDENTS)))


def value_obj(kind):
  v, _ = VALUES[kind]
  if isinstance(v, tuple) and len(v) == 2 and v[0] == 'TEXT':
    return cfg.parse_value(v[1])
  return v


def value_text(kind):
  v, lit = VALUES[kind]
  if isinstance(v, tuple) and len(v) == 2 and v[0] == 'TEXT':
    return v[1]
  return repr(v) if lit else None


def key_text(t):
  scope, sel, param = t
  if sel == 'gin.macro':
    return scope
  return (scope + '/' if scope else '') + sel + '.' + param


def install(bindings, how):
  harness.hard_reset()
  gin.constant('c06.CONST', CONST)
  gin.parse_config('import json\nfrom os import path as osp')
  for i, (t, kind) in enumerate(bindings):
    txt = value_text(kind)
    if how == 'parse' and txt is not None and (i % 2 == 0):
      gin.parse_config('%s = %s' % (key_text(t), txt))
    else:
      gin.bind_parameter(t, value_obj(kind))


def same(a, b):
  if isinstance(a, cfg.ConfigurableReference) or isinstance(b, cfg.ConfigurableReference):
    return (isinstance(a, cfg.ConfigurableReference) and isinstance(b, cfg.ConfigurableReference) and
            a.configurable.selector == b.configurable.selector and a.evaluate == b.evaluate and a.scopes == b.scopes)
  if type(a) is not type(b):
    return False
  if isinstance(a, float):
    return (a == b and math.copysign(1, a) == math.copysign(1, b)) or (a != a and b != b)
  if isinstance(a, (list, tuple)):
    return len(a) == len(b) and all(same(x, y) for x, y in zip(a, b))
  if isinstance(a, dict):
    return len(a) == len(b) and all(k in b and same(a[k], b[k]) for k in a)  # dict equality ignores order
  return a == b


HDR = re.compile(r'^# Parameters for (.*):$')


def drop_empty_sections(text):
  lines = text.split('\n')
  out, i = [], 0
  while i < len(lines):
    if HDR.match(lines[i]) and i + 2 < len(lines) and lines[i + 2] == '# None.':
      i += 4
      continue
    out.append(lines[i])
    i += 1
  return '\n'.join(out)


def roundtrip(bindings, mll, ci, how, res, desc):
  """Returns the config text or None after reporting a violation."""
  install(bindings, how)
  try:
    s = gin.config_str(max_line_length=mll, continuation_indent=ci)
  except Exception as e:  # pylint: disable=broad-except
    res.violation('config_str_raises', '%r: config_str(%d, %d) raised %r' % (desc, mll, ci, e), desc)
    return None
  originals = {t: value_obj(k) for t, k in bindings}
  harness.hard_reset()
  gin.constant('c06.CONST', CONST)
  try:
    gin.parse_config(s)
  except Exception as e:  # pylint: disable=broad-except
    res.violation('config_str_unparseable', '%r: config_str(%d, %d) does not parse (%r):\n%s' % (desc, mll, ci, e, s), desc)
    return None
  for (t, kind) in bindings:
    lit = VALUES[kind][1]
    key = key_text(t) if t[1] != 'gin.macro' else t[0] + '/gin.macro.value'
    try:
      got = gin.query_parameter(key)
      present = True
    except ValueError:
      got, present = None, False
    if lit:
      if not present or not same(got, originals[t]):
        res.violation('binding_not_restored', '%r: width (%d,%d): %s = %r came back as %r (present=%s)\n%s' %
                      (desc, mll, ci, key, originals[t], got, present, s), desc)
        return None
      res.w('roundtrip_equal_value_and_type')
      if len(repr(originals[t])) > mll:
        res.w('wrapped_value_roundtrip')
    else:
      if present:
        res.violation('nonliteral_emitted', '%r: non-literal %s came back as %r\n%s' % (desc, key, got, s), desc)
        return None
      res.w('nonliteral_omitted')
  imps = sorted((i.module, i.is_from, i.alias) for i in cfg._IMPORTS)
  if imps != [('json', False, None), ('os.path', True, 'osp')]:
    res.violation('imports_not_restored', '%r: imports after the round trip: %r\n%s' % (desc, imps, s), desc)
    return None
  res.w('imports_kept')
  s2 = gin.config_str(max_line_length=mll, continuation_indent=ci)
  if s2 != s and s2 != drop_empty_sections(s):
    res.violation('second_text_differs', '%r: width (%d,%d): serialising again gives\n%s\n--- first:\n%s' %
                  (desc, mll, ci, s2, s), desc)
    return None
  res.w('second_text_identical')
  # structure: params sorted within sections, sections ordered by (case-folded) name
  names, params, cur = [], {}, None
  for line in s.split('\n'):
    m = HDR.match(line)
    if m:
      cur = m.group(1)
      names.append(cur)
      params[cur] = []
    elif cur and re.match(r'^[A-Za-z_][\w/.]* = ', line) and not line.startswith(' '):
      params[cur].append(line.split(' = ')[0].rsplit('.', 1)[1])
  for n, ps in params.items():
    if ps != sorted(ps):   # plain (case-sensitive) order: the only order that is a function of the set alone
      res.violation('params_not_sorted', '%r: parameters of %s not sorted: %r' % (desc, n, ps), desc)
      return None

  def inner(n):
    sel = n.rsplit('/', 1)[-1]
    parts = sel.split('.')
    is_method = sel.endswith('K.meth') or sel.endswith('Worker.run')
    return ('.'.join(parts[-2:]) if is_method else parts[-1]).lower()
  keys = [inner(n) for n in names]
  if keys != sorted(keys):
    res.violation('sections_not_sorted', '%r: sections not in alphabetical order: %r' % (desc, names), desc)
    return None
  if len(names) >= 2:
    res.w('sections_sorted')
  # markdown keeps every binding line verbatim (4-space indent)
  md = gin.markdown(s).split('\n')
  for line in s.split('\n'):
    if line and not line.startswith('#'):
      if ('    ' + line) not in md:
        res.violation('markdown_drops_line', '%r: markdown() lost the line %r' % (desc, line), desc)
        return None
  res.w('markdown_verbatim')
  return s


def run_config(idx_list, tier, res):
  bindings = [POOL[i] for i in idx_list]
  desc = ['cfg', list(idx_list)]
  base = None
  n = len(bindings)
  perms = list(itertools.permutations(range(n)))
  for pi, perm in enumerate(perms):
    how = 'parse' if pi % 2 else 'bind'
    res.case(('perm', tuple(idx_list), perm, how), n >= 2)
    s = roundtrip([bindings[i] for i in perm], 80, 4, how, res, desc + ['perm', list(perm), how])
    if s is None:
      return
    if base is None:
      base = s
    elif s != base:
      res.violation('depends_on_binding_order', '%r: binding order %r gives\n%s\n--- order %r gives\n%s' %
                    (desc, list(perm), s, list(perms[0]), base), desc + ['perm', list(perm), how])
      return
  if len(perms) > 1:
    res.w('permutation_invariant')
  tset = {b[0] for b in bindings}
  if ('', 'pkg.Fn', 'x') in tset and ('', 'pkg.fn', 'x') in tset:
    res.w('case_colliding_names')
  if ('', 'pkg.mod.dup', 'x') in tset or ('', 'other.mod.dup', 'x') in tset:
    res.w('module_disambiguation')
  if any(t[1] == 'c06.K.meth' for t in tset):
    res.w('method_target')
  if any(t[1] == 'gin.macro' for t in tset):
    res.w('macro_target')
  if sum(t[1].endswith('Worker.run') for t in tset) == 2:
    res.w('same_named_methods_of_same_named_classes')
  for ci in INDENTS:
    for mll in WIDTHS(ci):
      if (mll, ci) == (80, 4):
        continue
      res.case(('width', tuple(idx_list), mll, ci), True)
      if roundtrip(bindings, mll, ci, 'bind', res, desc + ['width', mll, ci]) is None:
        return
      if mll <= ci + 2:
        res.w('narrow_width')
  res.outcome('cfg:%d' % n)


# ------------------------------------------------------------------------------------ dynamic registration
HEAD = 'from __gin__ import dynamic_registration\n'
DYN = {
    'plain': HEAD + "import c06pkg.sub.mod\nimport c06pkg.other\nc06pkg.sub.mod.fn.a = [1, 2]\nc06pkg.other.fn.a = 'o'\n"
             "c06pkg.sub.mod.Cls.meth.y = @c06pkg.other.fn()\nc06pkg.sub.mod.Cls.x = @c06pkg.sub.mod.fn\n",
    'from_alias': HEAD + "from c06pkg.sub import mod as m\nfrom c06pkg import other\nm.fn.a = 1\nother.fn.a = 2\ns/m.fn.b = 3\n"
                  "mac = 5\nm.Cls.x = %mac\n",
    'collide_include': ('B', HEAD + "from c06pkg.sub import mod\ninclude 'c06_b.gin'\nmod.fn.a = 1\nmod.Cls.x = 'x'\n",
                        HEAD + "from c06pkg import other as mod\nmod.fn.a = 2\nmod.Zed.a = 3\n"),
    'collide_include_rev': ('B', HEAD + "from c06pkg import other as mod\ninclude 'c06_b.gin'\nmod.fn.a = 2\n",
                            HEAD + "from c06pkg.sub import mod\nmod.fn.a = 1\nmod.fn.b = 'b'\n"),
    'alias_is_other_module_name': ('B', HEAD + "from c06pkg import sub as other\ninclude 'c06_b.gin'\nother.mod.fn.a = 1\n",
                                   HEAD + "from c06pkg import other\nother.fn.a = 2\n"),
    # plain-style imports whose alias equals the module's last component (NOT redundant: `import a.b` binds `a`)
    'alias_equals_tail': HEAD + "import c06pkg.other as other\nother.fn.a = 1\nimport c06pkg.sub.mod as mod\nmod.fn.b = [2]\n",
    'from_alias_equals_name': HEAD + "from c06pkg import other as other\nother.fn.a = 1\n",
    'static_mix': "import json\nc06.f.x = 1\n",
    'capitalised_package': HEAD + "import Zc06Upper.Mod\nimport c06pkg.other\nZc06Upper.Mod.fn.a = 1\nc06pkg.other.fn.a = 2\n",
    'capitalised_from': HEAD + "from Zc06Upper import Mod as M\nM.fn.b = [1, 2]\n",
}


def dyn_observe():
  import c06pkg.sub.mod as A  # pylint: disable=import-outside-toplevel
  import c06pkg.other as B  # pylint: disable=import-outside-toplevel
  obs = {}
  for name, o in (('A.fn', A.fn), ('B.fn', B.fn), ('B.Zed', B.Zed)):
    try:
      obs[name] = gin.get_configurable(o)()
    except ValueError:
      obs[name] = 'unregistered'
    except Exception as e:  # pylint: disable=broad-except
      obs[name] = 'raised %r' % (e,)
  try:
    with gin.config_scope('s'):
      obs['s:A.fn'] = gin.get_configurable(A.fn)()
  except Exception:  # pylint: disable=broad-except
    obs['s:A.fn'] = 'unregistered'
  try:
    inst = gin.get_configurable(A.Cls)()
    x = inst.x
    obs['Cls.x'] = x() if callable(x) else x
    obs['Cls.meth'] = inst.meth()
  except ValueError:
    obs['Cls'] = 'unregistered'
  return obs


def run_dyn(case, res):
  _, name, mll, ci = case
  desc = list(case)
  spec = DYN[name]
  harness.hard_reset()
  MEM.clear()
  res.case(tuple(case), True)
  if isinstance(spec, tuple):
    MEM['c06_b.gin'] = spec[2]
    text = spec[1]
  else:
    text = spec
  gin.parse_config(text)
  obs1 = dyn_observe()
  cfg._OPERATIVE_CONFIG.clear()
  try:
    s = gin.config_str(max_line_length=mll, continuation_indent=ci)
  except Exception as e:  # pylint: disable=broad-except
    res.violation('dynamic_config_str_raises', '%r: config_str raised %r' % (desc, e), desc)
    return
  harness.hard_reset()
  try:
    gin.parse_config(s)
  except Exception as e:  # pylint: disable=broad-except
    res.violation('dynamic_config_str_unparseable', '%r: does not parse (%r):\n%s' % (desc, e, s), desc)
    return
  obs2 = dyn_observe()
  if obs2 != obs1:
    res.violation('dynamic_roundtrip_objects', '%r: objects see %r after the round trip, %r before\n%s' %
                  (desc, obs2, obs1, s), desc)
    return
  cfg._OPERATIVE_CONFIG.clear()
  s2 = gin.config_str(max_line_length=mll, continuation_indent=ci)
  if s2 != s:
    res.violation('dynamic_second_text_differs', '%r: serialising again gives\n%s\n--- first:\n%s' % (desc, s2, s), desc)
    return
  res.w('dynamic_roundtrip')
  res.outcome('dyn')


# ------------------------------------------------------------------------------------ registrations between two texts
LATE_FIRST = ['config_str', 'operative_config_str', 'error_message', 'nothing']


def run_late(case, res):
  """A configurable is serialised while its short name is unique; then a same-named configurable of another module is
  registered (a late import); the text produced afterwards must still parse back to the same bindings."""
  _, first = case
  desc = list(case)
  harness.hard_reset()
  res.case(tuple(case), True)

  def enc(depth=None, width=None):
    return (depth, width)
  a = gin.external_configurable(enc, name='enc', module='c06late.alpha.models')
  gin.bind_parameter('c06late.alpha.models.enc.depth', 3)
  gin.bind_parameter('s/enc.width', [1, 2])
  # references spelled with names that are unambiguous now and become ambiguous with the later registration
  gin.parse_config("c06.g.t = @enc\na/c06.f.x = [@s/models.enc(), {'k': @enc()}]\n")
  a()
  try:
    if first == 'config_str':
      gin.config_str()
    elif first == 'operative_config_str':
      gin.operative_config_str()
    elif first == 'error_message':
      try:
        gin.bind_parameter('enc.nope', 1)
      except ValueError:
        pass

    def enc2(depth=None):
      return depth
    gin.external_configurable(enc2, name='enc', module='c06late.beta.models')
    gin.bind_parameter('c06late.beta.models.enc.depth', 4)
    want = {k: dict(v) for k, v in cfg._CONFIG.items()}
    texts = [gin.config_str(), gin.operative_config_str()]
  except Exception as e:  # pylint: disable=broad-except
    res.violation('config_str_raises', '%r: %r' % (desc, e), desc)
    return
  for which, text in zip(('config_str', 'operative_config_str'), texts):
    gin.clear_config()
    try:
      gin.parse_config(text)
    except Exception as e:  # pylint: disable=broad-except
      res.violation('config_str_unparseable', '%r: %s after a same-named configurable was registered does not parse '
                    '(%r):\n%s' % (desc, which, e, text), desc)
      return
    got = {k: dict(v) for k, v in cfg._CONFIG.items()}
    if which == 'operative_config_str':    # (what the operative text lists is C07's subject: here it has to parse back)
      if got.get(('', 'c06late.alpha.models.enc'), {}).get('depth') != 3:
        res.violation('roundtrip_value', '%r: %s restores %r\n%s' % (desc, which, got, text), desc)
        return
      continue
    exp = want
    if got != exp:
      res.violation('roundtrip_value', '%r: %s restores %r, expected %r\n%s' % (desc, which, got, exp, text), desc)
      return
  res.w('late_same_named_registration')
  res.outcome('late')


def gen(tier):
  for first in LATE_FIRST:
    yield ['late', first]
  n = len(POOL)
  for size in (1, 2):
    for c in itertools.combinations(range(n), size):
      if len({POOL[i][0] for i in c}) != size:
        continue
      yield ['cfg', list(c)]
  # triples / quadruples over a reduced value set on colliding / related targets (thorough: a wider selection, every
  # quadruple of it; the full product of all triples over the whole pool -- 4*10^5 configurations x 6 orders x 28 widths --
  # does not finish in any useful time)
  quick = tier == 'quick'
  sel = [i for i, (t, kd) in enumerate(POOL) if kd in ('int', 'obj') and t != T0][:16 if quick else 28] + [
      i for i, (t, kd) in enumerate(POOL) if t == T0 and kd in (('nested_wide', 'ref_eval_scoped', 'obj') if quick else
                                                                ('nested_wide', 'ref_eval_scoped', 'obj', 'macro', 'str_quotes', 'none'))]
  for size in (3, 4):
    for c in itertools.combinations(sel, size):
      if len({POOL[i][0] for i in c}) == size and (size == 3 or sum(c) % (7 if quick else 3) == 0):
        yield ['cfg', list(c)]
  for name in DYN:
    for ci in INDENTS:
      for mll in WIDTHS(ci):
        yield ['dyn', name, mll, ci]
  for scope in DOTTED_SCOPES:
    for how in ('bind', 'reference_then_bind'):
      yield ['dotted', scope, how]
  yield ['dynorder']
  yield ['refkeys']
  yield ['rereg', True]
  yield ['rereg', False]


# ------------------------------------------------------------------------- a dict whose keys are references / macros
def run_refkeys(case, res):
  """Equal dicts are one value: the order in which a dict with reference keys was written must not show in the text."""
  items = ['@c06.g: 1', '@c06.f: 2', '@s/c06.g(): 3', '%mac: 4']
  plain = ["'b': 1", "'a': {'z': 0, 'y': [1]}", "'c': 3", "'aa': None"]
  texts = {}
  for perm in itertools.permutations(range(len(items))):
    harness.hard_reset()
    gin.parse_config('mac = 9\nc06.f.x = {%s}\nc06.f.y = {%s}\n' % (', '.join(items[i] for i in perm),
                                                                    ', '.join(plain[i] for i in perm)))
    res.case(('refkeys', perm), True)
    s1 = gin.config_str()
    harness.hard_reset()
    gin.parse_config(s1)
    s2 = gin.config_str()
    texts[perm] = (s1, s2)
  firsts = {t[0] for t in texts.values()}
  if len(firsts) != 1:
    a, b = sorted(firsts)[:2]
    res.violation('text_depends_on_dict_order', 'a dict with reference keys written in different orders serialises '
                  'differently:\n%s\n--- vs\n%s' % (a, b), case)
  elif any(t[0] != t[1] for t in texts.values()):
    res.violation('second_text_differs', 'dict with reference keys: serialising again changes the text', case)
  else:
    res.w('reference_keys_canonical')


# --------------------------------------------------------------------- a referenced function is registered again
def _rr_fn(x=None):
  return x


def run_rereg(case, res):
  """History: a function is registered, referenced from a binding, and then registered again under the same name (a
  module imported twice under two names does this): the reference binding is still literally representable."""
  _, evaluate = case
  harness.hard_reset()
  gin.external_configurable(_rr_fn, 'rr_fn', module='c06rr')
  gin.parse_config('c06.g.t = @c06rr.rr_fn%s\nc06rr.rr_fn.x = 1\n' % ('()' if evaluate else ''))
  before = gin.config_str()
  gin.external_configurable(_rr_fn, 'rr_fn', module='c06rr')
  res.case(('rereg', evaluate), True)
  after = gin.config_str()
  if after != before:
    res.violation('rereg_changes_text', 'the same function registered again under the same name: config_str() was\n%s\n--- and '
                  'is now\n%s' % (before, after), case)
    return
  harness.hard_reset()
  gin.external_configurable(_rr_fn, 'rr_fn', module='c06rr')
  gin.parse_config(after)
  t = gin.get_configurable('c06.g')()
  if (t if evaluate else t()) != 1:
    res.violation('binding_not_restored', 're-registered referenced function: round trip gives %r\n%s' % (t, after), case)
  else:
    res.w('reference_survives_reregistration')


# --------------------------------------------------------------- dynamic registration: binding order and implicit imports
def run_dynorder(case, res):
  """Configurables registered by their libraries (no import statement of the config names them) whose modules share the
  last component: the aliases config_str() hands out must not depend on the order in which the bindings were made."""
  items = [('c06qa.util.fa.x', 1), ('c06qb.util.fb.x', 2),
           ('c06qc.util.fc.x', cfg.ConfigurableReference('c06qb.util.fb', True)),
           ('c06qa.util.Residual_fa.channels', 16)]           # a nested class registered by its library
  texts = {}
  for perm in itertools.permutations(range(4)):
    harness.hard_reset()
    gin.parse_config(HEAD)
    for i in perm:
      k, v = items[i]
      gin.bind_parameter(k, cfg.ConfigurableReference('c06qb.util.fb', True) if i == 2 else v)
    res.case(('dynorder', perm), True)
    try:
      texts[perm] = gin.config_str()
    except Exception as e:  # pylint: disable=broad-except
      res.violation('config_str_raises', 'dynamic registration, bindings made in the order %r: config_str() raised %r' % (perm, e), case)
      return
  if len(set(texts.values())) != 1:
    a, b = sorted(texts.items())[0], [kv for kv in sorted(texts.items()) if kv[1] != sorted(texts.items())[0][1]][0]
    res.violation('dynamic_text_depends_on_order', 'dynamic registration: bindings made in the order %r give\n%s\n--- in the '
                  'order %r:\n%s' % (a[0], a[1], b[0], b[1]), case)
    return
  text = texts[(0, 1, 2, 3)]
  harness.hard_reset()
  try:
    gin.parse_config(text)
    import c06qa.util as A, c06qc.util as C  # pylint: disable=import-outside-toplevel,multiple-imports
    got = (gin.get_configurable(A.fa)(), gin.get_configurable(C.fc)(), A.Blocks.Residual_fa().channels)
  except Exception as e:  # pylint: disable=broad-except
    res.violation('dynamic_config_str_unparseable', 'implicit imports with colliding names: %r\n%s' % (e, text), case)
    return
  if got != (1, 2, 16):
    res.violation('dynamic_roundtrip_objects', 'implicit imports with colliding names: the re-parsed text gives %r\n%s' % (got, text), case)
  else:
    res.w('implicit_colliding_imports_order_free')


# ----------------------------------------------------------------------------------------- dotted scope names
# config_scope() and bind_parameter() accept scope components with periods (the parser does in references and macros:
# `@a.b/fn()`, `%a.b/m`), so such configurations are reachable by programmatic binding.
DOTTED_SCOPES = ['a.b', 'p/a.b', 'a.b/q', 'c06.f']


def run_dotted(case, res):
  _, scope, how = case
  harness.hard_reset()
  if how == 'bind':
    gin.bind_parameter('%s/c06.f.x' % scope, 7)
  else:
    gin.parse_config('c06.g.t = @%s/c06.f\n' % scope)       # a reference may spell the scope; bind under it afterwards
    gin.bind_parameter((scope, 'c06.f', 'x'), 7)
  gin.bind_parameter('c06.f.y', 'root')
  res.case(('dotted', scope, how), True)
  s = gin.config_str()
  harness.hard_reset()
  try:
    gin.parse_config(s)
  except Exception as e:  # pylint: disable=broad-except
    res.violation('dotted_scope_text_unparseable', "binding under the scope %r (%s): config_str() does not parse (%r):\n%s" %
                  (scope, how, e, s), case)
    return
  try:
    ok = gin.query_parameter('%s/c06.f.x' % scope) == 7 and gin.query_parameter('c06.f.y') == 'root'
  except ValueError:
    ok = False
  if not ok:
    res.violation('binding_not_restored', 'dotted scope %r: bindings not restored from\n%s' % (scope, s), case)
  else:
    res.w('dotted_scope_roundtrip')


NSH = 128


def shards(tier):
  return list(range(NSH))


def run_shard(i, tier):
  res = core.Result()
  for n, c in enumerate(gen(tier)):
    if n % NSH != i:
      continue
    try:
      if c[0] == 'cfg':
        run_config(c[1], tier, res)
      elif c[0] == 'late':
        run_late(c, res)
      elif c[0] == 'dotted':
        run_dotted(c, res)
      elif c[0] == 'dynorder':
        run_dynorder(c, res)
      elif c[0] == 'refkeys':
        run_refkeys(c, res)
      elif c[0] == 'rereg':
        run_rereg(c, res)
      else:
        run_dyn(c, res)
    except Exception:  # pylint: disable=broad-except
      import traceback
      res.extra['harness_error'] = traceback.format_exc() + '\ncase=%r' % (c,)
      break
    if n % 499 == i:
      res.sample({'case': c, 'bindings': [[key_text(POOL[j][0]), POOL[j][1]] for j in c[1]] if c[0] == 'cfg' else None})
  harness.hard_reset()
  return res


def replay(desc):
  res = core.Result()
  if desc[0] == 'dyn':
    run_dyn(desc, res)
  elif desc[0] == 'late':
    run_late(desc, res)
  elif desc[0] == 'dotted':
    run_dotted(desc, res)
  elif desc[0] == 'dynorder':
    run_dynorder(desc, res)
  elif desc[0] == 'refkeys':
    run_refkeys(desc, res)
  elif desc[0] == 'rereg':
    run_rereg(desc, res)
  else:
    run_config(desc[1], 'thorough', res)
  harness.hard_reset()
  return res
