"""Reader for /verif/KNOWN_FINDINGS.txt.  Never written at run time.

Line formats:
  open: property=<ID> sig=<signature> :: <what fails>
  fixed: property=<ID> <commit> <what failed>          (suppresses nothing)
"""
import os
import re

PATH = os.path.join(os.path.dirname(os.path.dirname(os.path.abspath(__file__))), 'KNOWN_FINDINGS.txt')
_OPEN = re.compile(r'^open:\s+property=(\S+)\s+sig=(\S+)\s*(?:::\s*(.*))?$')


def load():
  out = {}
  if not os.path.exists(PATH):
    return out
  with open(PATH) as f:
    for line in f:
      m = _OPEN.match(line.strip())
      if m:
        out[(m.group(1), m.group(2))] = m.group(3) or ''
  return out


def is_open(kf, cid, sig):
  return (cid, sig) in kf


def describe(kf, cid, sig):
  return kf.get((cid, sig), '')
