"""Trusted base of every check: import the real gin from /repo, snapshot and hard-reset its globals.

`clear_config` is itself a property (C20), so no check relies on it for isolation.  Right after the
check module has registered its probe configurables, `snapshot()` records *generically* every
module-level container / flag of `gin.config`; `hard_reset()` restores them in place.
"""
import copy
import logging
import os
import sys

REPO = os.environ.get('VERIF_REPO', '/repo')
if sys.path[0] != REPO:
  sys.path.insert(0, REPO)

import gin  # noqa: E402
from gin import config as cfg  # noqa: E402
from gin import config_parser  # noqa: E402
from gin import selector_map  # noqa: E402

assert os.path.realpath(gin.__file__).startswith(os.path.realpath(REPO) + os.sep), (
    'gin was not imported from %s but from %s' % (REPO, gin.__file__))

# gin logs "Path not found" etc. through the std logging module; silence it.
logging.disable(logging.CRITICAL)

_SNAP = None
_SKIP = {'_ARG_SPEC_CACHE'}


_LOCKED_AT_SNAPSHOT = [False]


def snapshot():
  """Records the current value of every module-level store of gin.config."""
  global _SNAP
  snap = {}
  for k, v in vars(cfg).items():
    if k.startswith('__') or k in _SKIP:
      continue
    if isinstance(v, bool) or type(v) in (int, float, str, type(None)):
      snap[k] = ('bool', v)      # plain scalars (flags, counters, generation numbers): restored by assignment
    elif isinstance(v, selector_map.SelectorMap):
      snap[k] = ('smap', copy.deepcopy(v._selector_tree), dict(v._selector_map))
    elif type(v) is dict:
      snap[k] = ('dict', dict(v))
    elif type(v) is list:
      snap[k] = ('list', list(v))
    elif type(v) is set:
      snap[k] = ('set', set(v))
  _SNAP = snap
  _LOCKED_AT_SNAPSHOT[0] = gin.config_is_locked()
  return snap


def hard_reset():
  """Restores every store recorded by snapshot() in place; resets scope stack and parse contexts."""
  assert _SNAP is not None, 'snapshot() not taken'
  release_owned_locks()   # first: restoring the stores may run finalizers of dropped objects, which may call into gin
  g = vars(cfg)
  for k, rec in _SNAP.items():
    kind = rec[0]
    if kind == 'bool':
      g[k] = rec[1]
    elif kind == 'smap':
      sm = g[k]
      sm._selector_tree = copy.deepcopy(rec[1])
      sm._selector_map = dict(rec[2])
    elif kind == 'dict':
      d = g[k]
      d.clear()
      d.update(rec[1])
    elif kind == 'list':
      g[k][:] = rec[1]
    elif kind == 'set':
      s = g[k]
      s.clear()
      s.update(rec[1])
  cfg._PARSE_CONTEXTS[:] = [cfg.ParseContext()]
  if gin.config_is_locked() != _LOCKED_AT_SNAPSHOT[0]:
    # the lock state is not (or no longer) one of the plain module-level stores: restore it through gin's own setter
    cfg._set_config_is_locked(_LOCKED_AT_SNAPSHOT[0])
  reset_scope_manager()
  release_owned_locks()


def held_locks():
  """Names of module-level locks of gin.config that are held right now (meaningful only at quiescence)."""
  out = []
  for k, v in list(vars(cfg).items()):
    if not hasattr(v, 'release') or not hasattr(v, 'acquire') or isinstance(v, type):
      continue
    try:
      if hasattr(v, 'locked'):
        held = v.locked()
      elif hasattr(v, '_is_owned'):
        held = v._is_owned()
      else:
        continue
    except Exception:  # pylint: disable=broad-except
      continue
    if held:
      out.append(k)
  return out


def release_owned_locks():
  """Releases every module-level lock of gin.config that is still held (a call that raised while holding one would
  otherwise poison every later world of this worker process)."""
  for k in held_locks():
    v = vars(cfg)[k]
    try:
      for _ in range(64):
        v.release()
        if k not in held_locks():
          break
    except Exception:  # pylint: disable=broad-except
      pass


def reset_scope_manager():
  """Drops every per-thread attribute of the scope manager (whatever they are called) so that it re-initialises."""
  mgr = cfg._SCOPE_MANAGER
  try:
    for k, v in list(vars(mgr).items()):
      if isinstance(v, list):          # this thread's scope stack, whatever it is called
        del vars(mgr)[k]
  except TypeError:
    pass
  try:
    mgr.current_scope  # pylint: disable=pointless-statement  (forces re-initialisation)
  except Exception:  # pylint: disable=broad-except
    vars(mgr).clear()
  cfg._SCOPE_MANAGER.current_scope  # pylint: disable=pointless-statement  (forces re-initialisation)


def internal_state():
  """A canonical, hashable rendering of gin's real internal stores (used only for state hashing)."""
  def canon(v):
    if isinstance(v, dict):
      return ('d',) + tuple(sorted(((canon(k), canon(x)) for k, x in v.items()), key=repr))
    if isinstance(v, (list, tuple)):
      return ('l',) + tuple(canon(x) for x in v)
    if isinstance(v, (set, frozenset)):
      return ('s',) + tuple(sorted((canon(x) for x in v), key=repr))
    if isinstance(v, (str, int, float, bool, bytes, type(None), complex)):
      return (type(v).__name__, v)
    if isinstance(v, cfg.ConfigurableReference):
      return ('ref', v.scoped_selector, v.evaluate, v.configurable.selector)
    if isinstance(v, cfg._UnknownConfigurableReference):
      return ('uref', v.selector, v.evaluate)
    if isinstance(v, config_parser.Location):
      return ('loc', v.filename, v.line_num)
    if isinstance(v, config_parser.ImportStatement):
      return ('imp', v.module, v.is_from, v.alias)
    return ('obj', type(v).__name__, getattr(v, '__name__', None))
  # every other module-level store (caches, memo tables, counters -- whatever they are called): two states that differ
  # only there may still have different futures, so they are not merged
  named = {'_CONFIG', '_CONFIG_PROVENANCE', '_OPERATIVE_CONFIG', '_IMPORTS', '_SINGLETONS', '_CONSTANTS', '_REGISTRY',
           '_FINALIZE_HOOKS', '_PARSE_CONTEXTS', '_INTERACTIVE_MODE'}
  other = []
  for k, rec in sorted((_SNAP or {}).items()):
    if k in named:
      continue
    v = vars(cfg).get(k)
    if rec[0] == 'bool':
      other.append((k, canon(v) if isinstance(v, (str, int, float, bool, bytes, type(None))) else ('obj', type(v).__name__)))
    elif rec[0] in ('dict', 'list', 'set') and isinstance(v, (dict, list, set)):
      other.append((k, canon(v)))
  return (
      tuple(other),
      canon(cfg._CONFIG), canon(cfg._CONFIG_PROVENANCE), canon(cfg._OPERATIVE_CONFIG),
      canon(cfg._IMPORTS), gin.config_is_locked(), getattr(cfg, '_INTERACTIVE_MODE', None),
      canon(sorted(cfg._SINGLETONS)), canon(sorted(cfg._CONSTANTS._selector_map)),
      canon(cfg._CONSTANTS._selector_tree),
      canon(sorted(cfg._REGISTRY._selector_map)), len(cfg._FINALIZE_HOOKS),
      len(cfg._PARSE_CONTEXTS), canon(cfg._SCOPE_MANAGER.active_scopes),
  )
