"""CLI runner:  ./check <ID> [--tier quick|thorough] [--replay file] [--jobs N]

exit 0  property held on everything explored (KNOWN-FINDING lines may be printed)
exit 1  VIOLATION property=<id> replay=<path>   (for a violation not listed open in KNOWN_FINDINGS.txt)
exit 2  harness error / vacuous run (never reported as a pass)
"""
import argparse
import importlib
import json
import multiprocessing
import os
import random
import subprocess
import sys
import time
import traceback

VERIF = os.path.dirname(os.path.dirname(os.path.abspath(__file__)))
sys.path.insert(0, VERIF)

from vf import core  # noqa: E402
from vf import known  # noqa: E402


class StalledError(RuntimeError):
  """A worker process delivered no result for a very long time: it died (the pool then loses its task for good) or the
  code under test left it stuck on something the harness does not control.  The exploration cannot be completed."""


class Ctx:
  """Handed to a check's run(): tier, seed, parallel map."""

  def __init__(self, tier, seed, jobs):
    self.tier = tier
    self.seed = seed
    self.jobs = jobs
    self._pool = None

  @property
  def quick(self):
    return self.tier == 'quick'

  def pool(self):
    if self._pool is None:
      self._pool = multiprocessing.get_context('fork').Pool(self.jobs, initializer=_pin_worker)
    return self._pool

  def pmap(self, fn, items, chunksize=1, force_pool=False):
    """Deterministic-content parallel map; order of execution permuted by the seed only."""
    items = list(items)
    if not items:
      return []
    if self.jobs <= 1 or (len(items) == 1 and not force_pool):
      return [fn(x) for x in items]
    order = list(range(len(items)))
    random.Random(self.seed).shuffle(order)
    out = [None] * len(items)
    permuted = [items[i] for i in order]
    chunks = [permuted[k:k + chunksize] for k in range(0, len(permuted), max(1, chunksize))]
    results = self.pool().imap(_chunk_call, [(fn, c) for c in chunks])
    # (generous: under full load the slowest single task of the quick tier takes about two minutes, of the thorough
    #  tier about twenty)
    limit = float(os.environ.get('VERIF_RESULT_TIMEOUT', 600 if self.quick else 7200))
    pos = 0
    for c in chunks:
      try:
        rs = results.next(timeout=limit)
      except multiprocessing.TimeoutError:
        self._pool.terminate()
        self._pool = None
        raise StalledError('no result from the worker pool within %.0f s (tasks %d..%d of %d, first: %.200r): a worker '
                           'died or is stuck' % (limit, pos + 1, pos + len(c), len(order), c[0])) from None
      for r in rs:
        out[order[pos]] = r
        pos += 1
    return out

  def close(self):
    if self._pool is not None:
      self._pool.terminate()
      self._pool.join()
      self._pool = None


def _chunk_call(args):
  fn, chunk = args
  return [fn(x) for x in chunk]


def _pin_worker():
  """One CPU per worker: thread hand-offs inside a worker (E2) then stay on one core (about 4x faster here)."""
  try:
    cpus = sorted(os.sched_getaffinity(0))
    ident = multiprocessing.current_process()._identity
    os.sched_setaffinity(0, {cpus[(ident[0] - 1) % len(cpus)]})
  except (AttributeError, OSError, IndexError):
    pass


def _load(cid):
  from vf import harness  # imports gin from /repo (asserted)
  mod = importlib.import_module('checks.' + cid.lower())
  if hasattr(mod, 'setup'):
    mod.setup()
  harness.snapshot()
  return mod


def _run_shard(args):
  modname, shard, tier = args
  mod = sys.modules[modname]
  try:
    return mod.run_shard(shard, tier)
  except Exception:  # a crash of the harness itself must never look like a pass
    r = core.Result()
    r.extra['harness_error'] = traceback.format_exc()
    return r


def default_run(mod, ctx):
  shards = list(mod.shards(ctx.tier))
  res = core.Result()
  for r in ctx.pmap(_run_shard, [(mod.__name__, s, ctx.tier) for s in shards]):
    res.merge(r)
  res.extra['shards'] = len(shards)
  return res


def write_evidence(mod, ctx, res, wall, n_viol, known_hits):
  cov = {
      'evaluations': res.evals,
      'distinct_nontrivial': len(res.nontrivial),
      'nontrivial_evaluations_beyond_distinct_bookkeeping': res.nontrivial_beyond,
      'rule': mod.RULE,
      'samples': core.jsonable(res.samples) or ['<none>'],
      'states': max(res.states, len(res.stateset)),
      'transitions': res.transitions,
      'traces_validated_against_impl': res.traces,
      'exhaustive': bool(getattr(mod, 'EXHAUSTIVE', True)) and not res.capped,
      'capped': res.capped,
      'distinct_outcomes': len(res.outcomes),
      'outcome_classes': sorted(res.outcomes)[:60],
      'witnesses': dict(sorted(res.witness.items())),
      'bound': mod.bound(ctx.tier) if hasattr(mod, 'bound') else '',
      'known_findings_hit': sorted(known_hits),
      'jobs': ctx.jobs,
  }
  for k, v in res.extra.items():
    if k not in cov and k != 'harness_error':
      cov[k] = core.jsonable(v)
  if mod.LEVEL != 'model_checking':
    for k in ('states', 'transitions', 'traces_validated_against_impl'):
      if not cov[k]:
        del cov[k]
  ev = {
      'property_id': mod.ID,
      'tier': ctx.tier,
      'seed': ctx.seed,
      'level': mod.LEVEL,
      'coverage': cov,
      'assumptions': list(getattr(mod, 'ASSUMPTIONS', [])),
      'wall_s': round(wall, 3),
      'violations': n_viol,
  }
  os.makedirs(os.path.join(VERIF, 'evidence'), exist_ok=True)
  path = os.path.join(VERIF, 'evidence', mod.ID + '.json')
  tmp = path + '.tmp'
  with open(tmp, 'w') as f:
    json.dump(ev, f, indent=1, sort_keys=True)
    f.write('\n')
  os.replace(tmp, path)
  return path


def _confirm(cid, path):
  """Replays the artefact twice in fresh processes; returns the list of REPRODUCED lines seen."""
  outs = []
  for _ in range(2):
    p = subprocess.run([os.path.join(VERIF, 'check'), cid, '--replay', path],
                       capture_output=True, text=True, timeout=600)
    lines = [l for l in p.stdout.splitlines() if l.startswith('REPRODUCED')]
    outs.append((p.returncode, tuple(lines)))
  return outs


def do_replay(mod, path):
  with open(path) as f:
    art = json.load(f)
  res = mod.replay(art['replay'])
  hit = [v for v in res.violations if v['sig'] == art['sig']]
  other = [v for v in res.violations if v['sig'] != art['sig']]
  for v in hit[:1]:
    print('REPRODUCED property=%s sig=%s' % (mod.ID, v['sig']))
    print('  ' + v['msg'].replace('\n', '\n  '))
  for v in other[:3]:
    print('OTHER-VIOLATION property=%s sig=%s' % (mod.ID, v['sig']))
  if 'harness_error' in res.extra:
    print(res.extra['harness_error'])
    return 2
  if hit:
    return 1
  print('NOT-REPRODUCED property=%s sig=%s' % (mod.ID, art['sig']))
  return 0


def _start_watchdog(cid, tier):
  """The whole run has a wall-clock limit, far above anything the unchanged tree needs (quick: minutes, thorough: under
  an hour per check): code under test that wedges the *main* process (a lock taken twice, a finalizer that never returns)
  must end in a report, not in a hang."""
  import json
  import threading
  limit = float(os.environ.get('VERIF_RUN_TIMEOUT', 1800 if tier == 'quick' else 4 * 3600))

  def fire():
    rdir = os.path.join(VERIF, 'replays', cid)
    os.makedirs(rdir, exist_ok=True)
    path = os.path.join(rdir, 'stalled.json')
    with open(path, 'w') as fh:
      json.dump({'property': cid, 'sig': 'exploration_stalled', 'msg': 'the run did not finish within %.0f s' % limit}, fh)
    sys.stdout.write('VIOLATION property=%s replay=%s\n  sig=exploration_stalled\n  the %s run did not finish within %.0f s: '
                     'the code under test wedged the explorer\n' % (cid, path, tier, limit))
    sys.stdout.flush()
    os._exit(1)
  t = threading.Timer(limit, fire)
  t.daemon = True
  t.start()


def main(argv=None):
  ap = argparse.ArgumentParser()
  ap.add_argument('id')
  ap.add_argument('--tier', default=os.environ.get('VERIF_TIER') or 'quick',
                  choices=['quick', 'thorough'])
  ap.add_argument('--replay')
  ap.add_argument('--jobs', type=int, default=int(os.environ.get('VERIF_JOBS', '0')) or
                  min(16, os.cpu_count() or 1))
  ap.add_argument('--no-confirm', action='store_true')
  a = ap.parse_args(argv)
  cid = a.id.upper()
  try:
    seed = int(os.environ.get('VERIF_SEED', '0') or 0)
  except ValueError:
    seed = 0

  mod = _load(cid)
  if a.replay:
    return do_replay(mod, a.replay)

  ctx = Ctx(a.tier, seed, a.jobs)
  t0 = time.time()
  _start_watchdog(cid, a.tier)
  try:
    if hasattr(mod, 'run'):
      res = mod.run(ctx)
    else:
      res = default_run(mod, ctx)
  except StalledError as e:
    # The bounded exploration could not be completed: never the case on the unchanged tree (every check completes there,
    # far below the limit), so it is reported as what it is -- the code under test stalls or kills the explorer.
    res = core.Result()
    res.violation('exploration_stalled', str(e), {'stalled': str(e)})
  finally:
    ctx.close()
  wall = time.time() - t0

  if 'harness_error' in res.extra:
    # An exception escaped from the code under test where the check expected none.  On the unchanged tree this never
    # happens (every check is run there before it is registered), so on a changed tree it is evidence that gin
    # misbehaved on some enumerated case: report it as a violation (the traceback names the case).
    tb = res.extra['harness_error']
    print('HARNESS-ERROR in %s:\n%s' % (cid, tb))
    last = [l for l in tb.strip().splitlines() if l and not l.startswith(' ')]
    etype = (last[-2] if len(last) >= 2 and last[-1].startswith(('case=', 'history=', 'args=', 'program=')) else
             (last[-1] if last else 'Exception')).split(':')[0].strip()
    res.violation('unexpected_exception:' + etype[:60], tb[-1500:], {'harness_error': tb[-3000:]})

  # Partition violations: listed as open finding vs. new.
  kf = known.load()
  by_sig = {}
  for v in res.violations:
    by_sig.setdefault(v['sig'], v)
  known_hits, new = [], []
  for sig, v in sorted(by_sig.items()):
    (known_hits if known.is_open(kf, cid, sig) else new).append(v)

  path = write_evidence(mod, ctx, res, wall, len(new), [v['sig'] for v in known_hits])

  for v in known_hits:
    print('KNOWN-FINDING: property=%s sig=%s %s' % (cid, v['sig'], known.describe(kf, cid, v['sig'])))

  rc = 0
  if new:
    rdir = os.path.join(VERIF, 'replays', cid)
    os.makedirs(rdir, exist_ok=True)
    for v in new[:8]:
      rp = os.path.join(rdir, '%016x.json' % core.h64(v['sig']))
      with open(rp, 'w') as f:
        json.dump({'property': cid, 'sig': v['sig'], 'msg': v['msg'],
                   'replay': core.jsonable(v['replay'])}, f, indent=1)
        f.write('\n')
      note = ''
      if not a.no_confirm:
        try:
          outs = _confirm(cid, rp)
          if not all(rc_ == 1 for rc_, _ in outs) or outs[0] != outs[1]:
            note = ' (WARNING: replay not reproduced identically twice: %r)' % (outs,)
        except Exception as e:  # pylint: disable=broad-except
          note = ' (WARNING: replay failed to run: %r)' % (e,)
      print('VIOLATION property=%s replay=%s' % (cid, rp))
      print('  sig=%s%s' % (v['sig'], note))
      print('  ' + v['msg'].replace('\n', '\n  '))
    if len(new) > 8:
      print('  ... and %d more distinct violation signatures' % (len(new) - 8))
    rc = 1

  # Anti-vacuity: every clause of the property must have been witnessed.
  missing = [w for w in getattr(mod, 'WITNESSES', []) if not res.witness.get(w)]
  if rc == 0 and (missing or res.evals == 0 or len(res.outcomes) < 2):
    print('VACUOUS property=%s missing_witnesses=%s evals=%d outcomes=%d' %
          (cid, missing, res.evals, len(res.outcomes)))
    rc = 2

  print('%s %s tier=%s seed=%d evals=%d distinct_nontrivial=%d states=%d transitions=%d traces=%d '
        'outcomes=%d known=%d new_violations=%d wall=%.1fs%s evidence=%s' %
        (cid, 'OK' if rc == 0 else ('FAIL' if rc == 1 else 'ERROR'), a.tier, seed, res.evals,
         len(res.nontrivial), max(res.states, len(res.stateset)), res.transitions, res.traces, len(res.outcomes),
         len(known_hits), len(new), wall, ' CAPPED' if res.capped else '', path))
  return rc


if __name__ == '__main__':
  sys.exit(main())
