"""Result bookkeeping shared by all checks (counts, witnesses, violations, samples)."""
import collections
import hashlib
import json


def h64(obj):
  """Stable 64-bit hash of a repr-able object (independent of PYTHONHASHSEED)."""
  return int.from_bytes(hashlib.blake2b(repr(obj).encode('utf8', 'backslashreplace'),
                                        digest_size=8).digest(), 'big')


class Result:
  """What one shard (or a whole run) covered.  Mergeable across worker processes."""

  MAX_SAMPLES = 6
  MAX_VIOLATIONS = 200
  MAX_DISTINCT = 3000000   # distinct-key bookkeeping is exact up to here; beyond it only counted (memory bound)

  def __init__(self):
    self.evals = 0            # executions of real gin code that were compared with the oracle
    self.states = 0           # distinct states (model checking engines)
    self.transitions = 0      # transitions explored (model checking engines)
    self.traces = 0           # histories / schedules / model traces replayed in lock-step on real gin
    self.stateset = set()     # h64 of distinct model/implementation states visited
    self.nontrivial = set()   # h64 of distinct non-trivial case keys
    self.outcomes = set()     # small strings: distinct observed outcome classes
    self.witness = collections.Counter()
    self.violations = []      # dicts: sig, msg, replay
    self.nviol = collections.Counter()
    self.samples = []
    self.extra = {}
    self.capped = False
    self.nontrivial_beyond = 0  # non-trivial evaluations not entered into the distinct set (set was full)

  def case(self, key, nontrivial=True):
    self.evals += 1
    if nontrivial:
      if len(self.nontrivial) < self.MAX_DISTINCT:
        self.nontrivial.add(h64(key))
      else:
        self.nontrivial_beyond += 1

  def state(self, key):
    self.stateset.add(h64(key))

  def outcome(self, s):
    self.outcomes.add(s)

  def w(self, name, n=1):
    self.witness[name] += n

  def sample(self, obj):
    if len(self.samples) < self.MAX_SAMPLES:
      self.samples.append(obj)

  def violation(self, sig, msg, replay):
    # keep the first (shortest, since enumeration is simplest-first) few per signature
    self.nviol[sig] += 1
    if self.nviol[sig] <= 2 and len(self.violations) < self.MAX_VIOLATIONS:
      self.violations.append({'sig': sig, 'msg': msg, 'replay': replay})

  def merge(self, other):
    self.evals += other.evals
    self.states += other.states
    self.transitions += other.transitions
    self.traces += other.traces
    self.nontrivial_beyond += other.nontrivial_beyond
    if len(self.nontrivial) + len(other.nontrivial) <= self.MAX_DISTINCT:
      self.nontrivial |= other.nontrivial
    else:
      room = max(0, self.MAX_DISTINCT - len(self.nontrivial))
      new = other.nontrivial - self.nontrivial if room else other.nontrivial
      for i, h in enumerate(new):
        if i < room:
          self.nontrivial.add(h)
      self.nontrivial_beyond += max(0, len(new) - room)
    self.stateset |= other.stateset
    self.outcomes |= other.outcomes
    self.witness.update(other.witness)
    for v in other.violations:
      have = sum(1 for x in self.violations if x['sig'] == v['sig'])
      if have < 2 and len(self.violations) < self.MAX_VIOLATIONS:
        self.violations.append(v)
      elif have >= 2:
        # prefer the shortest replay artefact per signature
        for i, x in enumerate(self.violations):
          if x['sig'] == v['sig'] and len(repr(v['replay'])) < len(repr(x['replay'])):
            self.violations[i] = v
            break
    self.nviol.update(other.nviol)
    for s in other.samples:
      self.sample(s)
    for k, v in other.extra.items():
      if isinstance(v, (int, float)) and isinstance(self.extra.get(k, 0), (int, float)):
        self.extra[k] = self.extra.get(k, 0) + v
      else:
        self.extra[k] = v
    self.capped = self.capped or other.capped
    return self


def jsonable(o):
  try:
    json.dumps(o)
    return o
  except (TypeError, ValueError):
    if isinstance(o, dict):
      return {str(k): jsonable(v) for k, v in o.items()}
    if isinstance(o, (list, tuple, set, frozenset)):
      return [jsonable(x) for x in o]
    return repr(o)
