"""E1 — explicit-state BFS over API operation histories on the real gin module.

A state is the history that reaches it: live gin objects do not deep-copy (ConfigurableReference.__deepcopy__
*calls* the configurable), so every node is rebuilt on a hard-reset gin by replaying its history.  The check
module supplies a `World` class:

    w = World()                 # hard-resets gin, builds the reference model
    w.ops() -> list             # operations enabled in the current state (JSON-able, simplest first)
    w.apply(op, res, hist)      # applies op to real gin AND to the model; when res is not None compares
                                # every observation and records violations with `hist` as replay artefact
    w.canon() -> hashable       # canonical form of the REAL internal state (+ model-only residue)

States are deduplicated on h64(canon).  `traces` counts histories replayed in lock-step on the real code.
"""
import sys
import traceback

from vf import core


def _expand(args):
  modname, hists = args
  mod = sys.modules[modname]
  res = core.Result()
  out = []
  for hist in hists:
    try:
      w = mod.World()
      for op in hist:
        w.apply(op, None, None)
      ops = w.ops()
      for op in ops:
        w = mod.World()
        for o in hist:
          w.apply(o, None, None)
        h2 = hist + [op]
        w.apply(op, res, h2)
        res.transitions += 1
        res.traces += 1
        res.case(('hist', repr(h2)), len(h2) >= 2)
        out.append((h2, core.h64(w.canon())))
    except Exception:  # pylint: disable=broad-except
      res.extra['harness_error'] = traceback.format_exc() + '\nhistory=%r' % (hist,)
      break
  return res, out


def run_bfs(ctx, mod, depth, res, max_states=200000, sample_every=997):
  w = mod.World()
  seen = {core.h64(w.canon())}
  frontier = [[]]
  for d in range(depth):
    if not frontier:
      res.extra['fixpoint_at_depth'] = d
      break
    n = max(1, min(len(frontier), ctx.jobs * 6))
    chunks = [frontier[i::n] for i in range(n)]
    nxt = []
    for r, succ in ctx.pmap(_expand, [(mod.__name__, c) for c in chunks]):
      res.merge(r)
      for h2, hh in succ:
        if hh not in seen:
          seen.add(hh)
          nxt.append(h2)
    nxt.sort(key=repr)
    res.extra['depth_completed'] = d + 1
    if nxt:
      res.sample({'history': nxt[len(nxt) // 2]})
    if len(seen) > max_states:
      res.capped = True
      res.extra['cap_note'] = 'state cap %d hit at depth %d; shallower depths fully covered' % (max_states, d + 1)
      break
    frontier = nxt
  res.states = max(res.states, len(seen))
  res.extra['frontier_left'] = len(frontier)
  return res


def replay_history(mod, hist):
  res = core.Result()
  w = mod.World()
  for k, op in enumerate(hist):
    w.apply(op, res, hist[:k + 1])
  return res
