"""E2 — stateless, preemption-bounded schedule exploration of real threads running real gin code.

* Threads are real `threading.Thread`s; exactly one runs at a time (per-thread semaphore baton).
* Scheduling points are `sys.settrace` line events inside /repo/gin/*.py (optionally restricted to frames
  whose code references a module-level shared store — a sound reduction: other frames only touch locals),
  plus every acquire of a module-level gin lock.
* Every `threading.Lock`/`RLock` found in `gin.config`'s globals is substituted by a scheduler-aware
  ModelLock (acquiring a held lock disables the thread; "no enabled thread" = deadlock).  For threads the
  scheduler does not manage (the main thread during reset) the model lock is pass-through.
* Exploration = iterative context bounding (CHESS): all schedules with <= `bound` preemptions.  An
  execution replays a prefix of choices and then follows the default policy (keep running the current
  thread; if it is not enabled, the lowest-id enabled thread).  Replaying a prefix must reproduce the same
  point labels, otherwise DivergenceError (hard harness error, never a verdict).
"""
import _thread
import os
import sys
import threading

from vf import harness
from vf.harness import cfg

GIN_DIR = os.path.realpath(os.path.join(harness.REPO, 'gin')) + os.sep
_LOCK_TYPES = (type(threading.Lock()), type(threading.RLock()))


class DivergenceError(Exception):
  pass


class HangError(Exception):
  pass


class ModelLock:
  """Scheduler-aware replacement for a module-level threading.Lock / RLock of gin."""

  def __init__(self, name, reentrant=False):
    self.name = name
    self.reentrant = reentrant
    self.owner = None
    self.depth = 0
    self.sched = None

  def acquire(self, blocking=True, timeout=-1):
    s = self.sched
    t = s.current() if s is not None else None
    if t is None:  # unmanaged thread (main thread doing reset / observation): pass-through
      if self.owner is not None and self.owner != 'main':
        raise RuntimeError('model lock %s held by a managed thread while main acquires it' % self.name)
      self.owner = 'main'
      self.depth += 1
      return True
    s.yield_point(t, ('acquire', self.name))
    if self.owner is t and self.reentrant:
      self.depth += 1
      return True
    while self.owner is not None:
      if self.owner is t:
        # self-deadlock on a non-reentrant lock: the thread can never proceed
        t.blocked_on = self
        s.block(t)
        continue
      if not blocking:
        return False
      t.blocked_on = self
      s.block(t)
    t.blocked_on = None
    self.owner = t
    self.depth = 1
    return True

  def release(self):
    self.depth -= 1
    if self.depth <= 0:
      self.owner = None
      self.depth = 0

  def locked(self):
    return self.owner is not None

  __enter__ = acquire

  def __exit__(self, *a):
    self.release()


_INSTALLED = {}
_DYNAMIC = []          # model locks created by gin code at run time (through the threading proxy)
_CURRENT = [None]      # the Sched that is currently running


class _ThreadingProxy:
  """What `gin.config` sees as the `threading` module: Lock / RLock create scheduler-aware model locks (a real lock
  held by a preempted thread would block the whole exploration); everything else is the real module."""

  def __init__(self, real):
    self._real = real

  def __getattr__(self, name):
    return getattr(self._real, name)

  def _make(self, reentrant):
    ml = ModelLock('dynamic#%d' % len(_DYNAMIC), reentrant=reentrant)
    ml.sched = _CURRENT[0]
    _DYNAMIC.append(ml)
    return ml

  def Lock(self):  # pylint: disable=invalid-name
    return self._make(False)

  def RLock(self):  # pylint: disable=invalid-name
    return self._make(True)


def install_model_locks():
  """Replaces every module-level lock of gin.config by a ModelLock (idempotent). Returns name->lock."""
  if not isinstance(vars(cfg).get('threading'), _ThreadingProxy):
    cfg.threading = _ThreadingProxy(threading)
  for k, v in list(vars(cfg).items()):
    if isinstance(v, _LOCK_TYPES) and k not in _INSTALLED:
      ml = ModelLock(k, reentrant=isinstance(v, type(threading.RLock())))
      setattr(cfg, k, ml)
      _INSTALLED[k] = ml
    elif isinstance(v, (list, tuple, dict)) and not k.startswith('__'):
      # locks kept in a module-level container (a pool of stripe locks, a table of per-key locks)
      items = list(v.items()) if isinstance(v, dict) else list(enumerate(v))
      if items and any(isinstance(x, _LOCK_TYPES) for _, x in items):
        repl = {}
        for i, x in items:
          if isinstance(x, _LOCK_TYPES):
            name = '%s[%r]' % (k, i)
            _INSTALLED[name] = repl[i] = ModelLock(name, reentrant=isinstance(x, type(threading.RLock())))
        if isinstance(v, dict):
          v.update(repl)
        elif isinstance(v, list):
          for i, ml in repl.items():
            v[i] = ml
        else:
          setattr(cfg, k, tuple(repl.get(i, x) for i, x in items))
  return _INSTALLED


class _T:
  def __init__(self, tid, body):
    self.id = tid
    self.body = body
    self.sem = _thread.allocate_lock()  # binary semaphore (raw lock: no Python-level code, C speed)
    self.sem.acquire()
    self.state = 'ready'
    self.blocked_on = None
    self.result = None
    self.exc = None
    self.label = ('start',)
    self.thread = None


def _shared_names():
  names = set()
  for k, v in vars(cfg).items():
    if k.startswith('__'):
      continue
    if isinstance(v, (dict, list, set, bool, harness.selector_map.SelectorMap, ModelLock, cfg._ScopeManager) +
                  _LOCK_TYPES):
      names.add(k)
  return names


class Sched:
  """One controlled execution."""

  def __init__(self, bodies, devs, granularity='shared', timeout=10.0):
    """devs: sparse deviations from the default policy: iterable of (point index, alternative index)."""
    self.threads = [_T(i, b) for i, b in enumerate(bodies)]
    self.devs = dict(devs)
    self.last_dev = max(self.devs) if self.devs else -1
    self.ctl = _thread.allocate_lock()
    self.ctl.acquire()
    self.tls = threading.local()
    self.points = []      # (order ids tuple, chosen index, running-still-enabled bool, label of chosen thread)
    self.choices = []
    self.granularity = granularity
    self.timeout = timeout
    self.vis = {}
    self.shared = _shared_names()
    self.deadlock = False
    self.nsteps = 0
    self.nblocks = 0
    self.hang = None

  # ---- called inside managed threads
  def current(self):
    return getattr(self.tls, 't', None)

  def yield_point(self, t, label):
    t.label = label
    self.ctl.release()
    t.sem.acquire()

  def block(self, t):
    t.state = 'blocked'
    self.nblocks += 1
    self.ctl.release()
    t.sem.acquire()
    t.state = 'ready'

  def _visible(self, code):
    v = self.vis.get(code)
    if v is None:
      fn = code.co_filename
      if not fn.startswith(GIN_DIR) and not os.path.realpath(fn).startswith(GIN_DIR):
        v = False
      elif self.granularity == 'all':
        v = True
      elif self.granularity.startswith('focus:'):
        # only frames that mention one of the given names (in their own name or among the names they use): far fewer
        # points, so a larger preemption bound is affordable for the code that touches one particular shared store
        keys = self.granularity[6:].split(',')
        v = any(k in code.co_name or any(k in n for n in code.co_names) for k in keys)
      else:
        v = bool(self.shared.intersection(code.co_names)) or code.co_name in (
            'enter_scope', 'exit_scope', '_maybe_init', 'current_scope', 'active_scopes')
      self.vis[code] = v
    return v

  def _global_trace(self, frame, event, arg):
    if event == 'call' and self._visible(frame.f_code):
      return self._local_trace
    return None

  def _local_trace(self, frame, event, arg):
    if event == 'line':
      t = self.tls.t
      self.yield_point(t, (frame.f_code.co_name, frame.f_lineno))
    return self._local_trace

  def _boot(self, t):
    self.tls.t = t
    t.sem.acquire()
    sys.settrace(self._global_trace)
    try:
      t.result = t.body()
    except BaseException as e:  # pylint: disable=broad-except
      t.exc = e
    finally:
      sys.settrace(None)
      t.state = 'done'
      self.ctl.release()

  # ---- controller (main thread)
  def run(self):
    install_model_locks()  # idempotent; a real gin lock held by a preempted thread would hang the run
    _CURRENT[0] = self
    del _DYNAMIC[:]
    for lk in _INSTALLED.values():
      lk.sched = self
      lk.owner = None
      lk.depth = 0
    for t in self.threads:
      t.thread = threading.Thread(target=self._boot, args=(t,), daemon=True)
      t.thread.start()
    cur = None
    try:
      while True:
        alive = [t for t in self.threads if t.state != 'done']
        enabled = [t for t in alive if t.blocked_on is None or t.blocked_on.owner is None]
        if not enabled:
          self.deadlock = bool(alive)
          break
        still = cur is not None and cur in enabled
        order = ([cur] if still else []) + [t for t in enabled if t is not cur]
        k = 0
        if len(order) > 1:
          i = len(self.points)
          k = self.devs.get(i, 0)
          if k >= len(order):
            raise DivergenceError('choice %d out of range %d at point %d' % (k, len(order), i))
          self.points.append((tuple(t.id for t in order), k, still, order[k].label))
          self.choices.append(k)
        nxt = order[k]
        cur = nxt
        self.nsteps += 1
        nxt.sem.release()
        if not self.ctl.acquire(True, self.timeout):
          # the scheduled thread neither finished nor reached a point: it is stuck on something the scheduler does
          # not own (a real lock, a busy loop).  Reported to the oracle as a hang of this schedule.
          self.hang = 'thread %d did not reach a scheduling point within %.0fs (last label %r)' % (
              nxt.id, self.timeout, nxt.label)
          self.deadlock = True
          break
    finally:
      _CURRENT[0] = None
      for lk in list(_INSTALLED.values()) + _DYNAMIC:
        lk.sched = None
        lk.owner = None
        lk.depth = 0
    if not self.deadlock:
      for t in self.threads:
        t.thread.join(5)
    return self

  def preemptions_before(self, i):
    n = 0
    for (order, k, still, _) in self.points[:i]:
      if still and k != 0:
        n += 1
    return n


def label_hashes(x):
  """Rolling hashes: out[i] identifies the code points of points[:i] (PYTHONHASHSEED is fixed by ./check)."""
  out = [0]
  h = 0
  for p in x.points:
    h = hash((h, p[3]))
    out.append(h)
  return out


def children(x, devs, bound):
  """Nodes reachable by one more deviation after the last one: (devs', cost', hash of the labels before it)."""
  out = []
  last = max([i for i, _ in devs], default=-1)
  if x.last_dev >= len(x.points):
    raise DivergenceError('deviation index %d beyond the %d points of the execution' % (x.last_dev, len(x.points)))
  cost = 0
  lhs = label_hashes(x)
  for i, (order, k, still, _) in enumerate(x.points):
    if i > last:
      c = cost + (1 if still else 0)
      if c <= bound:
        lh = lhs[i]
        for alt in range(1, len(order)):
          out.append((tuple(devs) + ((i, alt),), c, lh))
    if still and k != 0:
      cost += 1
  return out


def run_node(make, node, granularity):
  devs, _, lh = node
  x = Sched(make(), devs, granularity).run()
  if devs and lh is not None:
    upto = max(i for i, _ in devs)
    if upto > len(x.points) or label_hashes(x)[upto] != lh:
      raise DivergenceError('replaying deviations %r reached different code points than the parent run' % (devs,))
  return x


def explore_local(make, node, bound, check, granularity, stats):
  """DFS over the whole subtree below `node` (inclusive)."""
  stack = [node]
  while stack:
    if _HANGS[0] >= MAX_HANGS:
      stats['capped'] = True      # every hang costs the full timeout: a few are evidence enough (they are reported)
      break
    nd = stack.pop()
    x = run_node(make, nd, granularity)
    if x.hang:
      _HANGS[0] += 1
    stats['executions'] += 1
    stats['points'] += len(x.points)
    stats['max_points'] = max(stats['max_points'], len(x.points))
    check(x)
    stack.extend(children(x, nd[0], bound))
  return stats


ROOT = ((), 0, None)
_HANGS = [0]      # per worker process
MAX_HANGS = 2


def drive(ctx, worker, mk_args, bound, res, local_budget=1):
  """Parallel exploration: nodes with more than `local_budget` preemptions left are expanded one level by a
  worker (children come back and are redistributed); the others are explored to the leaves inside one worker."""
  frontier = [ROOT]
  while frontier:
    tasks = [mk_args(nd, bound - nd[1] <= local_budget) for nd in frontier]
    frontier = []
    for r, kids in ctx.pmap(worker, tasks, chunksize=max(1, min(16, len(tasks) // (ctx.jobs * 8) or 1)),
                            force_pool=True):
      res.merge(r)
      frontier.extend(kids)
  return res


def new_stats():
  return {'executions': 0, 'points': 0, 'max_points': 0, 'capped': False}


def run_sequential(bodies):
  """Runs each body to completion in its own fresh (unmanaged, untraced) thread, one after another."""
  out = []
  for b in bodies:
    box = {}

    def tgt(b=b, box=box):
      try:
        box['r'] = b()
      except BaseException as e:  # pylint: disable=broad-except
        box['e'] = e
    th = threading.Thread(target=tgt)
    th.start()
    th.join()
    out.append(box)
  return out
